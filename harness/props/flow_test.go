package props

// Adapters around the IPFIX / NetFlow v9 decoders and the scenario runner shared by C03, C06, C05, C09, C04.

import (
	"bytes"
	"encoding/json"
	"fmt"
	"net"
	"sync"
	"testing"

	"github.com/EdgeCast/vflow/ipfix"
	netflow9 "github.com/EdgeCast/vflow/netflow/v9"
	"pgregory.net/rapid"
	"verif/harness/wire"
)

var installOnce sync.Once

func installEnterprise() { installOnce.Do(wire.InstallEnterprise) }

// flowCache wraps the two template caches behind one interface.
type flowCache struct {
	proto string
	ix    ipfix.MemCache
	n9    netflow9.MemCache
}

func newFlowCache(proto string) *flowCache {
	c := &flowCache{proto: proto}
	if proto == "ipfix" {
		c.ix = ipfix.GetCache("")
	} else {
		c.n9 = netflow9.GetCache("")
	}
	return c
}

func loadFlowCache(proto, file string) *flowCache {
	c := &flowCache{proto: proto}
	if proto == "ipfix" {
		c.ix = ipfix.GetCache(file)
	} else {
		c.n9 = netflow9.GetCache(file)
	}
	return c
}

func (c *flowCache) dump(file string) error {
	if c.proto == "ipfix" {
		return c.ix.Dump(file)
	}
	return c.n9.Dump(file)
}

// flowResult is a decoder-independent copy of what Decode returned.
type flowResult struct {
	Nil     bool // Decode returned a nil message
	Err     error
	AgentID string
	Header  map[string]uint64
	Recs    []wire.DecodedRecord
	// Raw values as decoded (for JSON checks)
	ix *ipfix.Message
	n9 *netflow9.Message
}

// decodeFlow runs one datagram through the decoder exactly as a worker does. A panic is returned as perr.
func (c *flowCache) decodeFlow(addr net.IP, b []byte) (res flowResult, perr error) {
	defer func() {
		if r := recover(); r != nil {
			perr = fmt.Errorf("decoder panicked: %v", r)
		}
	}()
	res.Header = map[string]uint64{}
	if c.proto == "ipfix" {
		m, err := ipfix.NewDecoder(addr, b).Decode(c.ix)
		res.Err = err
		if m == nil {
			res.Nil = true
			return
		}
		res.ix = m
		res.AgentID = m.AgentID
		res.Header["Version"] = uint64(m.Header.Version)
		res.Header["Length"] = uint64(m.Header.Length)
		res.Header["ExportTime"] = uint64(m.Header.ExportTime)
		res.Header["SequenceNo"] = uint64(m.Header.SequenceNo)
		res.Header["DomainID"] = uint64(m.Header.DomainID)
		for _, ds := range m.DataSets {
			var rec wire.DecodedRecord
			for _, f := range ds {
				cv, e := wire.CanonOf(f.Value)
				if e != nil {
					perr = e
					return
				}
				rec = append(rec, wire.ExpField{ID: f.ID, PEN: f.EnterpriseNo, Val: cv})
			}
			res.Recs = append(res.Recs, rec)
		}
		return
	}
	m, err := netflow9.NewDecoder(addr, b).Decode(c.n9)
	res.Err = err
	if m == nil {
		res.Nil = true
		return
	}
	res.n9 = m
	res.AgentID = m.AgentID
	res.Header["Version"] = uint64(m.Header.Version)
	res.Header["Count"] = uint64(m.Header.Count)
	res.Header["SysUpTime"] = uint64(m.Header.SysUpTime)
	res.Header["UNIXSecs"] = uint64(m.Header.UNIXSecs)
	res.Header["SeqNum"] = uint64(m.Header.SeqNum)
	res.Header["SrcID"] = uint64(m.Header.SrcID)
	for _, ds := range m.DataSets {
		var rec wire.DecodedRecord
		for _, f := range ds {
			cv, e := wire.CanonOf(f.Value)
			if e != nil {
				perr = e
				return
			}
			rec = append(rec, wire.ExpField{ID: f.ID, Val: cv})
		}
		res.Recs = append(res.Recs, rec)
	}
	return
}

// marshal encodes a decoded message the way the worker does (per-worker buffer, JSONMarshal).
func (r *flowResult) marshal() (out []byte, err error, perr error) {
	defer func() {
		if rec := recover(); rec != nil {
			perr = fmt.Errorf("JSONMarshal panicked: %v", rec)
		}
	}()
	buf := new(bytes.Buffer)
	if r.ix != nil {
		out, err = r.ix.JSONMarshal(buf)
	} else if r.n9 != nil {
		out, err = r.n9.JSONMarshal(buf)
	} else {
		err = fmt.Errorf("no message")
	}
	return
}

func compareHeader(got, want map[string]uint64) string {
	for k, w := range want {
		if g, ok := got[k]; !ok || g != w {
			return fmt.Sprintf("header field %s: decoded %d, wire %d", k, g, w)
		}
	}
	return ""
}

// prepareScenario decodes the announcement messages of a scenario into a fresh cache.
func prepareScenario(sc *wire.Scenario) (*flowCache, net.IP, error) {
	cache := newFlowCache(sc.Main.Proto)
	addr := wire.ExactIP(sc.Exporter)
	for i := range sc.Pre {
		res, perr := cache.decodeFlow(addr, sc.Pre[i].Bytes())
		if perr != nil {
			return nil, nil, fmt.Errorf("announcement %d: %v", i, perr)
		}
		if res.Nil || res.Err != nil {
			return nil, nil, fmt.Errorf("announcement message %d rejected: nil=%v err=%v", i, res.Nil, res.Err)
		}
		if len(res.Recs) != 0 {
			return nil, nil, fmt.Errorf("announcement message %d (templates only) yielded %d records", i, len(res.Recs))
		}
	}
	return cache, addr, nil
}

func scenarioVerdict(sc *wire.Scenario) verdict {
	var v verdict
	recs, maxFields, dataSets := 0, 0, 0
	for i := range sc.Main.Sets {
		s := &sc.Main.Sets[i]
		switch s.Kind {
		case "tpl", "opt":
			v.label(true, "in-message-template")
			v.label(s.Pad > 0, "template-set-padded")
			v.label(len(s.Tpls) > 1, "multi-template-set")
		case "data":
			dataSets++
			recs += len(s.Recs)
			tp := s.Tpl
			if n := len(tp.All()); n > maxFields {
				maxFields = n
			}
			v.label(s.Pad > 0, "padded")
			v.label(s.Pad > 4, "padded>4")
			v.label(tp.Options, "options-template")
			v.label(len(tp.Scope) > 0, "scope-fields")
			v.label(tp.MinRecordLen() <= 4, "record<=4-octets-possible")
			for _, f := range tp.All() {
				v.label(f.PEN != 0, "enterprise")
				v.label(f.PEN != 0 && f.ID == 0, "enterprise-id0")
				v.label(f.Len == wire.VarLen, "varlen")
				n := wire.NaturalSize(f.Type)
				v.label(n > 0 && int(f.Len) < n, "reduced-size")
				v.label(f.Type == wire.TBoolean, "boolean")
				v.label(f.Type == wire.TFloat32 || f.Type == wire.TFloat64, "float")
				v.label(f.Type == wire.TString, "string")
			}
			for _, r := range s.Recs {
				for k, f := range tp.All() {
					if f.Len == wire.VarLen {
						long := len(r.Vals[k]) >= 255 || (k < len(r.Long) && r.Long[k])
						v.label(long, "varlen-3-octet-prefix")
						v.label(!long, "varlen-1-octet-prefix")
					}
				}
			}
			last := s.Recs[len(s.Recs)-1]
			v.label(len(wire.EncodeRecord(tp, &last)) <= 4, "last-record<=4-octets")
		}
	}
	v.label(dataSets > 1, "multi-set")
	v.label(len(sc.Pre) > 0, "pre-announced")
	v.label(len(sc.Exporter) == 4, "exporter-ipv4-4byte")
	v.label(len(sc.Exporter) == 16 && net.IP(sc.Exporter).To4() != nil, "exporter-ipv4-mapped")
	v.label(len(sc.Exporter) == 16 && net.IP(sc.Exporter).To4() == nil, "exporter-ipv6")
	v.NT = recs >= 1 && maxFields >= 2
	return v
}

// runScenarioDecode is the oracle of C03 / C06: decode a well-formed scenario and compare with the reference model.
func runScenarioDecode(sc *wire.Scenario) (v verdict, sig string, err error) {
	return runScenarioDecodeWith(sc, nil)
}

// runScenarioDecodeWith runs between (if any) after the announcement messages have been decoded and before the main
// message is: something that happens in the collector between learning a template and using it.
func runScenarioDecodeWith(sc *wire.Scenario, between func() error) (v verdict, sig string, err error) {
	v = scenarioVerdict(sc)
	cache, addr, e := prepareScenario(sc)
	if e != nil {
		return v, "announce", e
	}
	if between != nil {
		if e := between(); e != nil {
			return v, "between", e
		}
	}
	wireBytes := sc.Main.Bytes()
	if len(wireBytes) > 65507 {
		return v, "", nil // does not fit in a datagram: outside the domain
	}
	res, perr := cache.decodeFlow(addr, wireBytes)
	if perr != nil {
		return v, "panic", perr
	}
	if res.Nil {
		return v, "rejected", fmt.Errorf("well-formed message rejected: %v", res.Err)
	}
	if res.Err != nil {
		return v, "error", fmt.Errorf("well-formed message with all templates known reports an error: %v", res.Err)
	}
	if d := compareHeader(res.Header, sc.Main.ExpHeader()); d != "" {
		return v, "header", fmt.Errorf("%s", d)
	}
	want := wire.ExpectMsg(&sc.Main)
	if d := wire.CompareRecords(res.Recs, want); d != "" {
		return v, "records", fmt.Errorf("%s", d)
	}
	return v, "", nil
}

func scenarioProperty(t *testing.T, prop, proto, rule string, run func(*wire.Scenario) (verdict, string, error), maxSets, maxRecs int) {
	installEnterprise()
	col := getCollector(prop, rule)
	runRegress(t, prop)
	env := wire.NewGenEnv(proto)
	env.Big = true // the runners treat a message that does not fit a datagram as outside the domain
	rapid.Check(t, func(t *rapid.T) {
		sc := env.GenScenario(t, maxSets, maxRecs)
		v, sig, err := run(&sc)
		if err == nil && v.NT && rapid.IntRange(0, 7).Draw(t, "twins") == 0 {
			// the same scenario, each twin with a template cache of its own, run by 6 goroutines at once
			if e := concurrently(6, func() error { _, _, e := run(&sc); return e }); e != nil {
				sig, err = "concurrent", fmt.Errorf("decoded by 6 goroutines at once (separate caches): %v", e)
			}
			v.label(true, "concurrent-twins")
		}
		col.report(t, mustJSON(sc), v, sig, err)
	})
}

func registerScenarioReplay(prop string, run func(*wire.Scenario) (verdict, string, error)) {
	registerReplay(prop, func(raw json.RawMessage) error {
		installEnterprise()
		var sc wire.Scenario
		if err := json.Unmarshal(raw, &sc); err != nil {
			return err
		}
		_, _, err := run(&sc)
		return err
	})
}
