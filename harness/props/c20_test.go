package props

// C20 — built-in and shipped IPFIX information models agree (finite: enumerated exhaustively),
// plus a generated differential: every element decodes identically under both tables.

import (
	"encoding/json"
	"fmt"
	"os"
	"path/filepath"
	"sort"
	"testing"

	"github.com/EdgeCast/vflow/ipfix"
	netflow5 "github.com/EdgeCast/vflow/netflow/v5"
	"gopkg.in/yaml.v2"
	"pgregory.net/rapid"
	"verif/harness/wire"
)

const c20Rule = "phase 1 (exhaustive): every key of the built-in table, of the table produced by the real loader from scripts/ipfix.elements, of an independent YAML parse of that file " +
	"and of golden/ipfix_registry.json is enumerated: present in all four, same name, same abstract type, FieldID = key id, type name recognised (the three RFC 6313 list types decode as raw octets); " +
	"phase 2 (generated differential): for a drawn element and drawn value octets a data record decodes identically under the built-in and the loaded table; " +
	"a case = one element (phase 1) or one (element, length, value) triple (phase 2); every case is non-trivial; distinct by hash"

type goldenEntry struct {
	PEN  uint32 `json:"pen"`
	ID   uint16 `json:"id"`
	Name string `json:"name"`
	Type string `json:"type"`
}

var listTypes = map[string]bool{"basicList": true, "subTemplateList": true, "subTemplateMultiList": true}

func repoDir() string {
	if d := os.Getenv("VERIF_REPO"); d != "" {
		return d
	}
	return "/repo"
}

func typeNameOf(t ipfix.FieldType) string { return wire.TypeName(int(t)) }

func snapshotModel() map[ipfix.ElementKey]ipfix.InfoElementEntry {
	out := map[ipfix.ElementKey]ipfix.InfoElementEntry{}
	for k, v := range ipfix.InfoModel {
		out[k] = v
	}
	return out
}

type c20Case struct {
	Phase int      `json:"phase"`
	PEN   uint32   `json:"pen"`
	ID    uint16   `json:"id"`
	Len   int      `json:"len,omitempty"`
	Val   wire.Hex `json:"val,omitempty"`
}

func TestC20(t *testing.T) {
	col := getCollector("C20", c20Rule)
	builtin := snapshotModel()

	// the type-name table itself: every name maps to a distinct type, numbering as the harness assumes
	for name, ft := range ipfix.FieldTypes {
		if typeNameOf(ft) != name {
			p := col.failCase("typetable", mustJSON(map[string]interface{}{"name": name, "type": int(ft)}), "type table: name/number mismatch")
			t.Fatalf("type table maps %q to %d (%s) (replay %s)", name, ft, typeNameOf(ft), p)
		}
	}

	// real loader on a copy of the shipped file
	work := os.Getenv("VERIF_WORK")
	if work == "" {
		work = os.TempDir()
	}
	cfgDir, err := os.MkdirTemp(work, "c20cfg")
	if err != nil {
		t.Fatalf("harness: %v", err)
	}
	defer os.RemoveAll(cfgDir)
	src := filepath.Join(repoDir(), "scripts", "ipfix.elements")
	raw, err := os.ReadFile(src)
	if err != nil {
		p := col.failCase("missing-file", mustJSON(src), err.Error())
		t.Fatalf("shipped elements file unreadable: %v (replay %s)", err, p)
	}
	os.WriteFile(filepath.Join(cfgDir, "ipfix.elements"), raw, 0o644)
	if err := ipfix.LoadExtElements(cfgDir); err != nil {
		p := col.failCase("load-error", mustJSON(src), err.Error())
		t.Fatalf("LoadExtElements fails on the shipped file: %v (replay %s)", err, p)
	}
	loaded := snapshotModel()

	// independent parse of the YAML
	var y map[uint32]map[uint16][]string
	if err := yaml.Unmarshal(raw, &y); err != nil {
		p := col.failCase("yaml", mustJSON(src), err.Error())
		t.Fatalf("shipped elements file is not valid YAML: %v (replay %s)", err, p)
	}

	// golden registry
	var golden []goldenEntry
	goldenPath := filepath.Join("..", "..", "golden", "ipfix_registry.json")
	if g := os.Getenv("VERIF_GOLDEN"); g != "" {
		goldenPath = g
	}
	gb, err := os.ReadFile(goldenPath)
	if err != nil {
		t.Fatalf("harness: golden registry missing: %v", err)
	}
	if err := json.Unmarshal(gb, &golden); err != nil {
		t.Fatalf("harness: golden registry: %v", err)
	}
	gold := map[ipfix.ElementKey]goldenEntry{}
	for _, g := range golden {
		gold[ipfix.ElementKey{EnterpriseNo: g.PEN, ElementID: g.ID}] = g
	}

	keys := map[ipfix.ElementKey]bool{}
	for k := range builtin {
		keys[k] = true
	}
	for k := range loaded {
		keys[k] = true
	}
	for k := range gold {
		keys[k] = true
	}
	for pen, m := range y {
		for id := range m {
			keys[ipfix.ElementKey{EnterpriseNo: pen, ElementID: id}] = true
		}
	}
	var sorted []ipfix.ElementKey
	for k := range keys {
		sorted = append(sorted, k)
	}
	sort.Slice(sorted, func(i, j int) bool {
		if sorted[i].EnterpriseNo != sorted[j].EnterpriseNo {
			return sorted[i].EnterpriseNo < sorted[j].EnterpriseNo
		}
		return sorted[i].ElementID < sorted[j].ElementID
	})
	bad := 0
	for _, k := range sorted {
		c := c20Case{Phase: 1, PEN: k.EnterpriseNo, ID: k.ElementID}
		cj := mustJSON(c)
		var v verdict
		v.NT = true
		v.label(true, "phase1-element")
		check := func() error {
			b, okb := builtin[k]
			l, okl := loaded[k]
			g, okg := gold[k]
			yy, oky := y[k.EnterpriseNo][k.ElementID]
			if !okb || !okl || !okg || !oky {
				return fmt.Errorf("element (pen %d, id %d): built-in %v, loaded-from-file %v, yaml %v, golden %v — must be present everywhere", k.EnterpriseNo, k.ElementID, okb, okl, oky, okg)
			}
			if len(yy) != 2 {
				return fmt.Errorf("element %d: file entry has %d properties, want [name, type]", k.ElementID, len(yy))
			}
			if b.FieldID != k.ElementID || l.FieldID != k.ElementID {
				return fmt.Errorf("element %d: FieldID built-in %d / loaded %d differs from its key", k.ElementID, b.FieldID, l.FieldID)
			}
			if b.Name != l.Name || b.Name != yy[0] || b.Name != g.Name {
				return fmt.Errorf("element %d: name built-in %q, loaded %q, file %q, golden %q", k.ElementID, b.Name, l.Name, yy[0], g.Name)
			}
			if b.Type != l.Type {
				return fmt.Errorf("element %d (%s): type built-in %s, loaded %s", k.ElementID, b.Name, typeNameOf(b.Type), typeNameOf(l.Type))
			}
			ft, known := ipfix.FieldTypes[yy[1]]
			if !known && !listTypes[yy[1]] {
				return fmt.Errorf("element %d (%s): unrecognised type name %q in the file", k.ElementID, b.Name, yy[1])
			}
			if known && ft != b.Type || !known && b.Type != ipfix.Unknown {
				return fmt.Errorf("element %d (%s): file says %q, built-in decodes as %s", k.ElementID, b.Name, yy[1], typeNameOf(b.Type))
			}
			if g.Type != yy[1] {
				return fmt.Errorf("element %d (%s): golden registry type %q, file %q", k.ElementID, b.Name, g.Type, yy[1])
			}
			return nil
		}
		if err := check(); err != nil {
			bad++
			col.record(cj, v)
			p := col.failCase(fmt.Sprintf("element-%d-%d", k.EnterpriseNo, k.ElementID), cj, err.Error())
			t.Errorf("property C20 violated: %v (replay %s)", err, p)
			if bad > 5 {
				break
			}
			continue
		}
		col.record(cj, v)
	}
	col.addExtra("elements_enumerated", len(sorted))
	if bad > 0 {
		return
	}

	// phase 2: generated differential decode under both tables
	elems := make([]ipfix.ElementKey, 0, len(sorted))
	elems = append(elems, sorted...)
	rapid.Check(t, func(t *rapid.T) {
		k := elems[rapid.IntRange(0, len(elems)-1).Draw(t, "elem")]
		typ := int(builtin[k].Type)
		n := wire.NaturalSize(typ)
		if n == 0 || rapid.IntRange(0, 5).Draw(t, "oddlen") == 0 {
			n = rapid.IntRange(1, 20).Draw(t, "len")
		}
		val := wire.GenValue(t, typ, n)
		c := c20Case{Phase: 2, PEN: k.EnterpriseNo, ID: k.ElementID, Len: n, Val: val}
		var v verdict
		v.NT = true
		v.label(true, "phase2-differential")
		err := c20Differential(&c, builtin, loaded)
		col.report(t, mustJSON(c), v, "differential", err)
	})
}

func c20Differential(c *c20Case, builtin, loaded map[ipfix.ElementKey]ipfix.InfoElementEntry) error {
	tp := wire.Template{ID: 256, Fields: []wire.Field{{PEN: c.PEN, ID: c.ID, Len: uint16(c.Len)}}}
	msg := wire.Msg{Proto: "ipfix", Sets: []wire.Set{{Kind: "tpl", Tpls: []wire.Template{tp}},
		{Kind: "data", Tpl: &tp, Recs: []wire.Record{{Vals: []wire.Hex{c.Val}}}}}}
	b := msg.Bytes()
	var results [2]flowResult
	for i, model := range []map[ipfix.ElementKey]ipfix.InfoElementEntry{builtin, loaded} {
		ipfix.InfoModel = model
		cache := newFlowCache("ipfix")
		res, perr := cache.decodeFlow([]byte{127, 0, 0, 1}, b)
		if perr != nil {
			return perr
		}
		results[i] = res
	}
	a, l := results[0], results[1]
	if a.Nil != l.Nil || (a.Err == nil) != (l.Err == nil) {
		return fmt.Errorf("element %d: decode outcome differs between built-in (%v) and installed-file (%v) model", c.ID, a.Err, l.Err)
	}
	want := make([]wire.ExpRecord, len(l.Recs))
	for i := range l.Recs {
		want[i] = wire.ExpRecord(l.Recs[i])
	}
	if d := wire.CompareRecords(a.Recs, want); d != "" {
		return fmt.Errorf("element %d decodes differently under the built-in and the installed-file model: %s", c.ID, d)
	}
	if len(a.Recs) != 1 {
		return fmt.Errorf("element %d: %d records decoded, want 1", c.ID, len(a.Recs))
	}
	return nil
}

// ---------------------------------------------------------------- phase 3: the model stays what it was, whatever is decoded

const c20HistoryRule = " | phase 3 (histories, TestC20History): 1..8 operations drawn from {decode a generated NetFlow v9 scenario, decode a generated IPFIX scenario, decode a generated sFlow / NetFlow v5 datagram, " +
	"load scripts/ipfix.elements through the real loader (installed as a regular file or as a symbolic link to it), run the loader on a directory without the file, run it on an installed file that cannot be loaded (a tab for indentation, an element id beyond 16 bits, a directory in its place, octets that are no YAML): the model in force stays what it was}; in half of the scenario operations the loader (with or without the file) runs between the scenario's announcement messages and its data; the scenarios are generated from and their expected records computed with the element types of golden/ipfix_registry.json; " +
	"after every operation the live information model must equal the registry snapshot entry by entry (key set, name, type, FieldID) and every scenario must decode to the golden-typed reference; a history case is non-trivial when it has >= 2 different kinds of operation"

type c20Op struct {
	Op string `json:"op"` // nf9 | ipfix | sflow | nf5 | load-file | load-absent
	// Across ("load-file" | "load-absent", scenario operations only): the loader runs after the scenario's announcement
	// messages have been decoded and before its data is — templates learned under one way of installing the model are
	// used under the other
	Across string         `json:"across,omitempty"`
	Sc     *wire.Scenario `json:"sc,omitempty"`
	Raw    wire.Hex       `json:"raw,omitempty"`
}

type c20History struct {
	Phase int     `json:"phase"`
	Ops   []c20Op `json:"ops"`
}

type c20Rig struct {
	gold     map[ipfix.ElementKey]goldenEntry
	typeOf   map[string]int
	fileDir  string
	emptyDir string
	linkDir  string // ipfix.elements is a symbolic link to the copy in fileDir
	cleanup  func()
}

func loadGolden() (map[ipfix.ElementKey]goldenEntry, error) {
	var golden []goldenEntry
	goldenPath := filepath.Join("..", "..", "golden", "ipfix_registry.json")
	if g := os.Getenv("VERIF_GOLDEN"); g != "" {
		goldenPath = g
	}
	gb, err := os.ReadFile(goldenPath)
	if err != nil {
		return nil, err
	}
	if err := json.Unmarshal(gb, &golden); err != nil {
		return nil, err
	}
	gold := map[ipfix.ElementKey]goldenEntry{}
	for _, g := range golden {
		gold[ipfix.ElementKey{EnterpriseNo: g.PEN, ElementID: g.ID}] = g
	}
	return gold, nil
}

func newC20Rig() (*c20Rig, error) {
	gold, err := loadGolden()
	if err != nil {
		return nil, fmt.Errorf("harness: golden registry: %v", err)
	}
	r := &c20Rig{gold: gold, typeOf: map[string]int{}}
	for i := 0; wire.TypeName(i) != fmt.Sprintf("type%d", i); i++ {
		r.typeOf[wire.TypeName(i)] = i
	}
	work := os.Getenv("VERIF_WORK")
	if work == "" {
		work = os.TempDir()
	}
	dir, err := os.MkdirTemp(work, "c20hist")
	if err != nil {
		return nil, fmt.Errorf("harness: %v", err)
	}
	r.cleanup = func() { os.RemoveAll(dir) }
	r.fileDir, r.emptyDir = filepath.Join(dir, "with"), filepath.Join(dir, "without")
	os.MkdirAll(r.fileDir, 0o755)
	os.MkdirAll(r.emptyDir, 0o755)
	r.linkDir = filepath.Join(dir, "linked")
	os.MkdirAll(r.linkDir, 0o755)
	raw, err := os.ReadFile(filepath.Join(repoDir(), "scripts", "ipfix.elements"))
	if err != nil {
		r.cleanup()
		return nil, fmt.Errorf("harness: %v", err)
	}
	if err := os.WriteFile(filepath.Join(r.fileDir, "ipfix.elements"), raw, 0o644); err != nil {
		r.cleanup()
		return nil, fmt.Errorf("harness: %v", err)
	}
	if err := os.Symlink(filepath.Join("..", "with", "ipfix.elements"), filepath.Join(r.linkDir, "ipfix.elements")); err != nil {
		r.cleanup()
		return nil, fmt.Errorf("harness: %v", err)
	}
	return r, nil
}

// goldenElems: the registry snapshot as generator input (list types decode as raw octets).
func (r *c20Rig) goldenElems() []wire.Elem {
	var out []wire.Elem
	for k, g := range r.gold {
		out = append(out, wire.Elem{PEN: k.EnterpriseNo, ID: k.ElementID, Type: r.typeOf[g.Type]})
	}
	sort.Slice(out, func(i, j int) bool {
		if out[i].PEN != out[j].PEN {
			return out[i].PEN < out[j].PEN
		}
		return out[i].ID < out[j].ID
	})
	return out
}

// modelIntact compares the live information model with the registry snapshot.
// brokenDir makes a configuration directory whose ipfix.elements cannot be loaded; kind (first octet of raw) selects how.
func (r *c20Rig) brokenDir(raw []byte) (string, error) {
	dir, err := os.MkdirTemp(r.emptyDir, "broken")
	if err != nil {
		return "", err
	}
	file := filepath.Join(dir, "ipfix.elements")
	kind := 0
	if len(raw) > 0 {
		kind = int(raw[0]) % 4
	}
	shipped, _ := os.ReadFile(filepath.Join(r.fileDir, "ipfix.elements"))
	switch kind {
	case 0:
		err = os.WriteFile(file, append(append([]byte{}, shipped...), []byte("\n0:\n\t1:\n  - broken\n")...), 0o644) // a tab for indentation
	case 1:
		err = os.WriteFile(file, append(append([]byte{}, shipped...), []byte("\n  70000:\n  - tooLarge\n  - unsigned8\n")...), 0o644) // an id beyond 16 bits
	case 2:
		err = os.Mkdir(file, 0o755) // a directory where the file should be
	default:
		err = os.WriteFile(file, []byte("{[ not yaml: at all\n\x00\xff"), 0o644)
	}
	return dir, err
}

func (r *c20Rig) modelIntact() error {
	if len(ipfix.InfoModel) != len(r.gold) {
		return fmt.Errorf("the live information model has %d entries, the registry snapshot %d", len(ipfix.InfoModel), len(r.gold))
	}
	var bad []string
	for k, g := range r.gold {
		e, ok := ipfix.InfoModel[k]
		switch {
		case !ok:
			bad = append(bad, fmt.Sprintf("element (pen %d, id %d) %s is missing", k.EnterpriseNo, k.ElementID, g.Name))
		case e.FieldID != k.ElementID || e.Name != g.Name:
			bad = append(bad, fmt.Sprintf("element %d is {FieldID %d, %q}, registry %q", k.ElementID, e.FieldID, e.Name, g.Name))
		case int(e.Type) != r.typeOf[g.Type]:
			bad = append(bad, fmt.Sprintf("element %d (%s) has type %s, registry %s", k.ElementID, g.Name, typeNameOf(e.Type), g.Type))
		}
	}
	if len(bad) > 0 {
		sort.Strings(bad)
		if len(bad) > 4 {
			bad = append(bad[:4], fmt.Sprintf("... and %d more", len(bad)-4))
		}
		return fmt.Errorf("the live information model no longer matches the registry snapshot: %v", bad)
	}
	return nil
}

func (r *c20Rig) run(h *c20History) (v verdict, sig string, err error) {
	kinds := map[string]bool{}
	for i, op := range h.Ops {
		kinds[op.Op] = true
		v.label(true, "op-"+op.Op)
		switch op.Op {
		case "nf9", "ipfix":
			if op.Sc == nil || op.Sc.Main.Proto != op.Op {
				return v, "", fmt.Errorf("bad case: scenario of op %d", i)
			}
			var between func() error
			if op.Across != "" {
				dir := map[string]string{"load-file": r.fileDir, "load-absent": r.emptyDir}[op.Across]
				if dir == "" {
					return v, "", fmt.Errorf("bad case: across %q", op.Across)
				}
				between = func() error { return ipfix.LoadExtElements(dir) }
				v.label(true, "templates-learned-before-a-load-used-after")
				v.label(len(op.Sc.Pre) > 0, "announced-before-the-load")
			}
			if _, s, e := runScenarioDecodeWith(op.Sc, between); e != nil {
				what := ""
				if op.Across != "" {
					what = ", the loader (" + op.Across + ") run between its announcements and its data"
				}
				return v, "decode-" + s, fmt.Errorf("operation %d (%s scenario%s, expected records computed with the registry's types): %v", i, op.Op, what, e)
			}
		case "sflow":
			if _, _, perr := decodeSFlow(op.Raw, nil); perr != nil {
				return v, "panic", fmt.Errorf("operation %d: %v", i, perr)
			}
		case "nf5":
			func() {
				defer func() { recover() }()
				netflow5.NewDecoder([]byte{127, 0, 0, 1}, op.Raw).Decode()
			}()
		case "load-file":
			if len(op.Raw) > 0 && op.Raw[0] == 1 {
				// the installed file is a symbolic link to the real one (a ConfigMap mount, a packaged default)
				if e := ipfix.LoadExtElements(r.linkDir); e != nil {
					return v, "load", fmt.Errorf("operation %d: LoadExtElements on the shipped file behind a symbolic link: %v", i, e)
				}
				v.label(true, "elements-file-behind-a-symbolic-link")
				break
			}
			if e := ipfix.LoadExtElements(r.fileDir); e != nil {
				return v, "load", fmt.Errorf("operation %d: LoadExtElements on the shipped file: %v", i, e)
			}
		case "load-broken":
			// an installed file that cannot be loaded (it does not parse, an id does not fit, the path is a directory): the
			// loader reports it; the model in force stays what it was
			dir, e := r.brokenDir(op.Raw)
			if e != nil {
				return v, "", fmt.Errorf("harness: %v", e)
			}
			func() {
				defer func() {
					if rec := recover(); rec != nil {
						err = fmt.Errorf("operation %d: LoadExtElements on an unloadable file panicked: %v", i, rec)
					}
				}()
				ipfix.LoadExtElements(dir)
			}()
			os.RemoveAll(dir)
			if err != nil {
				return v, "panic", err
			}
		case "load-absent":
			if e := ipfix.LoadExtElements(r.emptyDir); e != nil {
				return v, "load", fmt.Errorf("operation %d: LoadExtElements without a file: %v", i, e)
			}
		default:
			return v, "", fmt.Errorf("bad case: op %q", op.Op)
		}
		if e := r.modelIntact(); e != nil {
			return v, "model-changed", fmt.Errorf("after operation %d (%s): %v", i, op.Op, e)
		}
	}
	v.NT = len(kinds) >= 2
	v.label(true, "phase3-history")
	return v, "", nil
}

func TestC20History(t *testing.T) {
	col := getCollector("C20", "")
	col.Rule += c20HistoryRule
	rig, err := newC20Rig()
	if err != nil {
		t.Fatal(err)
	}
	defer rig.cleanup()
	elems := rig.goldenElems()
	envs := map[string]*wire.GenEnv{"ipfix": wire.NewGenEnvFrom("ipfix", elems), "nf9": wire.NewGenEnvFrom("nf9", elems)}
	// The information model is process-wide state: once a history has damaged it, every later case in this process
	// (rapid's shrinking attempts included) starts from the damaged model. The first failing history is therefore kept
	// as the replay case (it reproduces in a fresh process) and later cases only repeat its report.
	var first error
	rapid.Check(t, func(t *rapid.T) {
		if first != nil {
			t.Fatalf("property C20 violated by an earlier history of this process (the model stays damaged): %v", first)
		}
		h := c20History{Phase: 3}
		n := rapid.IntRange(1, 8).Draw(t, "nops")
		for i := 0; i < n; i++ {
			op := c20Op{Op: rapid.SampledFrom([]string{"nf9", "ipfix", "nf9", "ipfix", "sflow", "nf5", "load-file", "load-absent", "load-broken"}).Draw(t, "op")}
			switch op.Op {
			case "nf9", "ipfix":
				sc := envs[op.Op].GenScenario(t, 2, 3)
				op.Sc = &sc
				op.Across = rapid.SampledFrom([]string{"", "", "load-file", "load-absent"}).Draw(t, "across")
			case "load-file":
				if rapid.IntRange(0, 2).Draw(t, "vialink") == 0 {
					op.Raw = []byte{1}
				}
			case "load-broken":
				op.Raw = []byte{byte(rapid.IntRange(0, 3).Draw(t, "brokenkind"))}
			case "sflow":
				d := wire.GenSFDatagram(t)
				op.Raw = d.Bytes()
			case "nf5":
				pk := wire.GenNF5(t)
				op.Raw = pk.Bytes()
			}
			h.Ops = append(h.Ops, op)
		}
		v, sig, err := rig.run(&h)
		if err != nil {
			first = err
		}
		col.report(t, mustJSON(h), v, sig, err)
	})
}

func init() {
	registerReplay("C20", func(raw json.RawMessage) error {
		var h c20History
		if err := json.Unmarshal(raw, &h); err != nil || h.Phase != 3 {
			return fmt.Errorf("C20 phase 1/2 cases are (element) keys; re-run ./check C20 quick (the enumeration is exhaustive and takes seconds)")
		}
		rig, err := newC20Rig()
		if err != nil {
			return err
		}
		defer rig.cleanup()
		_, _, err = rig.run(&h)
		return err
	})
}
