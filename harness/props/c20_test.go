package props

// C20 — built-in and shipped IPFIX information models agree (finite: enumerated exhaustively),
// plus a generated differential: every element decodes identically under both tables.

import (
	"encoding/json"
	"fmt"
	"os"
	"path/filepath"
	"sort"
	"testing"

	"github.com/EdgeCast/vflow/ipfix"
	"gopkg.in/yaml.v2"
	"pgregory.net/rapid"
	"verif/harness/wire"
)

const c20Rule = "phase 1 (exhaustive): every key of the built-in table, of the table produced by the real loader from scripts/ipfix.elements, of an independent YAML parse of that file " +
	"and of golden/ipfix_registry.json is enumerated: present in all four, same name, same abstract type, FieldID = key id, type name recognised (the three RFC 6313 list types decode as raw octets); " +
	"phase 2 (generated differential): for a drawn element and drawn value octets a data record decodes identically under the built-in and the loaded table; " +
	"a case = one element (phase 1) or one (element, length, value) triple (phase 2); every case is non-trivial; distinct by hash"

type goldenEntry struct {
	PEN  uint32 `json:"pen"`
	ID   uint16 `json:"id"`
	Name string `json:"name"`
	Type string `json:"type"`
}

var listTypes = map[string]bool{"basicList": true, "subTemplateList": true, "subTemplateMultiList": true}

func repoDir() string {
	if d := os.Getenv("VERIF_REPO"); d != "" {
		return d
	}
	return "/repo"
}

func typeNameOf(t ipfix.FieldType) string { return wire.TypeName(int(t)) }

func snapshotModel() map[ipfix.ElementKey]ipfix.InfoElementEntry {
	out := map[ipfix.ElementKey]ipfix.InfoElementEntry{}
	for k, v := range ipfix.InfoModel {
		out[k] = v
	}
	return out
}

type c20Case struct {
	Phase int      `json:"phase"`
	PEN   uint32   `json:"pen"`
	ID    uint16   `json:"id"`
	Len   int      `json:"len,omitempty"`
	Val   wire.Hex `json:"val,omitempty"`
}

func TestC20(t *testing.T) {
	col := getCollector("C20", c20Rule)
	builtin := snapshotModel()

	// the type-name table itself: every name maps to a distinct type, numbering as the harness assumes
	for name, ft := range ipfix.FieldTypes {
		if typeNameOf(ft) != name {
			p := col.failCase("typetable", mustJSON(map[string]interface{}{"name": name, "type": int(ft)}), "type table: name/number mismatch")
			t.Fatalf("type table maps %q to %d (%s) (replay %s)", name, ft, typeNameOf(ft), p)
		}
	}

	// real loader on a copy of the shipped file
	work := os.Getenv("VERIF_WORK")
	if work == "" {
		work = os.TempDir()
	}
	cfgDir, err := os.MkdirTemp(work, "c20cfg")
	if err != nil {
		t.Fatalf("harness: %v", err)
	}
	defer os.RemoveAll(cfgDir)
	src := filepath.Join(repoDir(), "scripts", "ipfix.elements")
	raw, err := os.ReadFile(src)
	if err != nil {
		p := col.failCase("missing-file", mustJSON(src), err.Error())
		t.Fatalf("shipped elements file unreadable: %v (replay %s)", err, p)
	}
	os.WriteFile(filepath.Join(cfgDir, "ipfix.elements"), raw, 0o644)
	if err := ipfix.LoadExtElements(cfgDir); err != nil {
		p := col.failCase("load-error", mustJSON(src), err.Error())
		t.Fatalf("LoadExtElements fails on the shipped file: %v (replay %s)", err, p)
	}
	loaded := snapshotModel()

	// independent parse of the YAML
	var y map[uint32]map[uint16][]string
	if err := yaml.Unmarshal(raw, &y); err != nil {
		p := col.failCase("yaml", mustJSON(src), err.Error())
		t.Fatalf("shipped elements file is not valid YAML: %v (replay %s)", err, p)
	}

	// golden registry
	var golden []goldenEntry
	goldenPath := filepath.Join("..", "..", "golden", "ipfix_registry.json")
	if g := os.Getenv("VERIF_GOLDEN"); g != "" {
		goldenPath = g
	}
	gb, err := os.ReadFile(goldenPath)
	if err != nil {
		t.Fatalf("harness: golden registry missing: %v", err)
	}
	if err := json.Unmarshal(gb, &golden); err != nil {
		t.Fatalf("harness: golden registry: %v", err)
	}
	gold := map[ipfix.ElementKey]goldenEntry{}
	for _, g := range golden {
		gold[ipfix.ElementKey{EnterpriseNo: g.PEN, ElementID: g.ID}] = g
	}

	keys := map[ipfix.ElementKey]bool{}
	for k := range builtin {
		keys[k] = true
	}
	for k := range loaded {
		keys[k] = true
	}
	for k := range gold {
		keys[k] = true
	}
	for pen, m := range y {
		for id := range m {
			keys[ipfix.ElementKey{EnterpriseNo: pen, ElementID: id}] = true
		}
	}
	var sorted []ipfix.ElementKey
	for k := range keys {
		sorted = append(sorted, k)
	}
	sort.Slice(sorted, func(i, j int) bool {
		if sorted[i].EnterpriseNo != sorted[j].EnterpriseNo {
			return sorted[i].EnterpriseNo < sorted[j].EnterpriseNo
		}
		return sorted[i].ElementID < sorted[j].ElementID
	})
	bad := 0
	for _, k := range sorted {
		c := c20Case{Phase: 1, PEN: k.EnterpriseNo, ID: k.ElementID}
		cj := mustJSON(c)
		var v verdict
		v.NT = true
		v.label(true, "phase1-element")
		check := func() error {
			b, okb := builtin[k]
			l, okl := loaded[k]
			g, okg := gold[k]
			yy, oky := y[k.EnterpriseNo][k.ElementID]
			if !okb || !okl || !okg || !oky {
				return fmt.Errorf("element (pen %d, id %d): built-in %v, loaded-from-file %v, yaml %v, golden %v — must be present everywhere", k.EnterpriseNo, k.ElementID, okb, okl, oky, okg)
			}
			if len(yy) != 2 {
				return fmt.Errorf("element %d: file entry has %d properties, want [name, type]", k.ElementID, len(yy))
			}
			if b.FieldID != k.ElementID || l.FieldID != k.ElementID {
				return fmt.Errorf("element %d: FieldID built-in %d / loaded %d differs from its key", k.ElementID, b.FieldID, l.FieldID)
			}
			if b.Name != l.Name || b.Name != yy[0] || b.Name != g.Name {
				return fmt.Errorf("element %d: name built-in %q, loaded %q, file %q, golden %q", k.ElementID, b.Name, l.Name, yy[0], g.Name)
			}
			if b.Type != l.Type {
				return fmt.Errorf("element %d (%s): type built-in %s, loaded %s", k.ElementID, b.Name, typeNameOf(b.Type), typeNameOf(l.Type))
			}
			ft, known := ipfix.FieldTypes[yy[1]]
			if !known && !listTypes[yy[1]] {
				return fmt.Errorf("element %d (%s): unrecognised type name %q in the file", k.ElementID, b.Name, yy[1])
			}
			if known && ft != b.Type || !known && b.Type != ipfix.Unknown {
				return fmt.Errorf("element %d (%s): file says %q, built-in decodes as %s", k.ElementID, b.Name, yy[1], typeNameOf(b.Type))
			}
			if g.Type != yy[1] {
				return fmt.Errorf("element %d (%s): golden registry type %q, file %q", k.ElementID, b.Name, g.Type, yy[1])
			}
			return nil
		}
		if err := check(); err != nil {
			bad++
			col.record(cj, v)
			p := col.failCase(fmt.Sprintf("element-%d-%d", k.EnterpriseNo, k.ElementID), cj, err.Error())
			t.Errorf("property C20 violated: %v (replay %s)", err, p)
			if bad > 5 {
				break
			}
			continue
		}
		col.record(cj, v)
	}
	col.addExtra("elements_enumerated", len(sorted))
	if bad > 0 {
		return
	}

	// phase 2: generated differential decode under both tables
	elems := make([]ipfix.ElementKey, 0, len(sorted))
	elems = append(elems, sorted...)
	rapid.Check(t, func(t *rapid.T) {
		k := elems[rapid.IntRange(0, len(elems)-1).Draw(t, "elem")]
		typ := int(builtin[k].Type)
		n := wire.NaturalSize(typ)
		if n == 0 || rapid.IntRange(0, 5).Draw(t, "oddlen") == 0 {
			n = rapid.IntRange(1, 20).Draw(t, "len")
		}
		val := wire.GenValue(t, typ, n)
		c := c20Case{Phase: 2, PEN: k.EnterpriseNo, ID: k.ElementID, Len: n, Val: val}
		var v verdict
		v.NT = true
		v.label(true, "phase2-differential")
		err := c20Differential(&c, builtin, loaded)
		col.report(t, mustJSON(c), v, "differential", err)
	})
}

func c20Differential(c *c20Case, builtin, loaded map[ipfix.ElementKey]ipfix.InfoElementEntry) error {
	tp := wire.Template{ID: 256, Fields: []wire.Field{{PEN: c.PEN, ID: c.ID, Len: uint16(c.Len)}}}
	msg := wire.Msg{Proto: "ipfix", Sets: []wire.Set{{Kind: "tpl", Tpls: []wire.Template{tp}},
		{Kind: "data", Tpl: &tp, Recs: []wire.Record{{Vals: []wire.Hex{c.Val}}}}}}
	b := msg.Bytes()
	var results [2]flowResult
	for i, model := range []map[ipfix.ElementKey]ipfix.InfoElementEntry{builtin, loaded} {
		ipfix.InfoModel = model
		cache := newFlowCache("ipfix")
		res, perr := cache.decodeFlow([]byte{127, 0, 0, 1}, b)
		if perr != nil {
			return perr
		}
		results[i] = res
	}
	a, l := results[0], results[1]
	if a.Nil != l.Nil || (a.Err == nil) != (l.Err == nil) {
		return fmt.Errorf("element %d: decode outcome differs between built-in (%v) and installed-file (%v) model", c.ID, a.Err, l.Err)
	}
	want := make([]wire.ExpRecord, len(l.Recs))
	for i := range l.Recs {
		want[i] = wire.ExpRecord(l.Recs[i])
	}
	if d := wire.CompareRecords(a.Recs, want); d != "" {
		return fmt.Errorf("element %d decodes differently under the built-in and the installed-file model: %s", c.ID, d)
	}
	if len(a.Recs) != 1 {
		return fmt.Errorf("element %d: %d records decoded, want 1", c.ID, len(a.Recs))
	}
	return nil
}

func init() {
	registerReplay("C20", func(raw json.RawMessage) error {
		return fmt.Errorf("C20 cases are (element) keys; re-run ./check C20 quick (the enumeration is exhaustive and takes seconds)")
	})
}
