package props

// C04 — data is decoded only with the same exporter's latest template.
// Stateful model-based check: one real cache, model = map[(exporter octets, template id)] -> template.

import (
	"encoding/binary"
	"encoding/hex"
	"encoding/json"
	"fmt"
	"hash/fnv"
	"net"
	"os"
	"sort"
	"strconv"
	"strings"
	"sync"
	"testing"
	"time"

	"github.com/EdgeCast/vflow/ipfix"
	"pgregory.net/rapid"
	"verif/harness/wire"
)

type c04Slot struct {
	Addr wire.Hex `json:"addr"`
	ID   uint16   `json:"id"`
}

type c04Op struct {
	Op   string         `json:"op"` // announce | announce+data | data | unknown | peerget | mixed
	Slot int            `json:"slot"`
	Tpl  *wire.Template `json:"tpl,omitempty"`
	Recs []wire.Record  `json:"recs,omitempty"`
	Pad  int            `json:"pad,omitempty"`
	// mixed: one message of the slot's exporter holding several sets in this order; a set with Tpl
	// (re-)announces that slot's template, a set without carries data under the template in force at that point
	Sets []c04MixedSet `json:"sets,omitempty"`
	// Seq / Domain: sequence number and observation domain (source id) of the message's header when SetHdr is true
	// (otherwise a counter that grows by one per message and domain 7): exporters restart, count per domain,
	// wrap around — none of which decides which template is the latest
	SetHdr bool   `json:"set_hdr,omitempty"`
	Seq    uint32 `json:"seq,omitempty"`
	Domain uint32 `json:"domain,omitempty"`
	Time   uint32 `json:"time,omitempty"` // export time / UNIX secs of the header when SetHdr is true
	// withdraw: one message whose template set (id 2) holds a field-less record — [id of Slot, 0], or [2, 0] when
	// All — optionally followed in the SAME set by the template records of Tpls (re-announcements of the slots
	// SlotsOf[i]); then, optionally, a data set for Slot (DataOld: encoded to its definition so far) and a data set
	// for the slot Other under its current template. A collector without template withdrawal reads the field-less
	// record as padding (when it ends the set) or as a template without fields; one with withdrawal removes the
	// template(s). Either way: a slot re-announced behind the record has the new definition; a slot neither named
	// nor (for All) of the plain kind is untouched; the named slot yields its old decode or nothing plus an error.
	All     bool            `json:"all,omitempty"`
	Tpls    []wire.Template `json:"tpls,omitempty"`
	SlotsOf []int           `json:"slots_of,omitempty"`
	DataOld []wire.Record   `json:"data_old,omitempty"`
	Other   int             `json:"other,omitempty"`
	DataOth []wire.Record   `json:"data_oth,omitempty"`
	// overrun (ipfix): a malformed message in which a record of a variable-length template claims N octets although
	// its set has only A left; the octets it runs over form, by the message's own set framing, a data set of a
	// never-announced template whose body happens to hold a complete template set (Tpl) redefining Slot's id. Whether
	// a collector drops such a message or skips by set lengths, it never takes a template from a place where only a
	// reader that has lost the set boundaries finds one: data for Slot (Recs) decodes as before
	N int `json:"n,omitempty"`
	A int `json:"a,omitempty"`
}

type c04MixedSet struct {
	Slot int            `json:"slot"`
	Tpl  *wire.Template `json:"tpl,omitempty"`
	Recs []wire.Record  `json:"recs,omitempty"`
	Pad  int            `json:"pad,omitempty"`
	// Join: the template record goes into the template set the previous entry opened (when that was an
	// announcement of the same kind, plain or options) instead of a set of its own
	Join bool `json:"join,omitempty"`
	// Junk: this many data sets of template ids the exporter never announced stand in front of this set (each is
	// reported and skipped; however many there are, the sets behind them count as before)
	Junk int `json:"junk,omitempty"`
}

type c04Case struct {
	Proto string    `json:"proto"`
	Slots []c04Slot `json:"slots"`
	Ops   []c04Op   `json:"ops"`
	// Pauses: operation index -> milliseconds that pass before it (aged histories: an exporter that is silent for a
	// while, a collector whose periodic tasks have fired in between); what the latest definition of an id is does not
	// depend on how long ago it was announced
	Pauses map[int]int `json:"pauses,omitempty"`
}

const c04Rule = "case = protocol (ipfix | nf9) + 2..6 (exporter address, template id) slots (IPv4 4-byte, IPv4-mapped, IPv6; ids shared across exporters; adversarial pairs that collide on the cache's " +
	"full 32-bit FNV-1 hash, share a shard, or share a shard and have the same text when address and id are written without separator; found by searching ~1.5M keys) + 2..30 operations: announce (alone or with data in the same message), re-announce with a different definition " +
	"(same record length with other elements, same elements with other field lengths, a fresh template, a twin of another key's current definition — identical, or the same elements with other lengths —, back to a definition the id had before, or fields of length zero: then data naming the id must yield nothing), field-less template records ([id,0] and [2,0], alone or with re-announcements behind them in the same set: a re-announced id has the new definition, an id the record does not concern is untouched, the named id decodes as before or yields nothing plus an error), drawn export times, malformed messages in which a variable-length record runs past the end of its set over octets that would read as a template set (ipfix: the slot keeps the template announced last), data under the model's current template, data for a never-announced slot, peer Get (ipfix), and messages mixing data sets and (re-)announcements of several ids of one exporter in any order (in a quarter of the multi-template messages 13..40 template records, the same ids announced over and over: the last record of an id counts), in a quarter of them with 1..80 data sets of never-announced templates in front of some of the sets; " +
	"invariant after every step = decode equals the reference expectation under the model's template for exactly that slot, unannounced slots give an 'unknown template' error and no records, peer Get returns the model's template or 'not available'; " +
	"non-trivial = a re-announcement followed by data, or >= 2 exporters using one id with different definitions, or a colliding pair in use; distinct by hash"

// lastC04Tolerant: slots of the last history run that were named by a field-less template record and not
// re-announced since (C11 compares those before and after the round trip instead of against the model)
var lastC04Tolerant map[int]bool

// ---------------------------------------------------------------- adversarial key search

type keyPair struct{ A, B c04Slot }

var (
	collideOnce  sync.Once
	fullCollide  []keyPair // same 32-bit hash
	shardCollide []keyPair // same shard (hash mod 32), different hash
	// textTwins: distinct (address, id) pairs in one shard whose textual rendering "address" + "id" coincides
	// when written without a separator ("10.0.0.1"+"3328" == "10.0.0.13"+"328"): a map key built that way
	// confuses two exporters although their hashes differ
	textTwins []keyPair
)

func fnvKey(addr []byte, id uint16) uint32 {
	h := fnv.New32()
	h.Write(addr)
	var b [2]byte
	binary.BigEndian.PutUint16(b[:], id)
	h.Write(b[:])
	return h.Sum32()
}

// findCollisions enumerates a fixed, deterministic family of (address, id) keys and groups them by hash.
func findCollisions() {
	collideOnce.Do(func() {
		seen := make(map[uint32]c04Slot, 1<<21)
		x := uint64(0x9e3779b97f4a7c15)
		next := func() uint64 { x ^= x << 13; x ^= x >> 7; x ^= x << 17; return x }
		for i := 0; i < 1500000 && len(fullCollide) < 64; i++ {
			r := next()
			var addr []byte
			switch i % 3 {
			case 0:
				addr = []byte{byte(10 + r%3), byte(r >> 8), byte(r >> 16), byte(r >> 24)}
			case 1:
				addr = net.IPv4(byte(172), byte(r>>8), byte(r>>16), byte(r>>24)).To16()
			default:
				addr = make([]byte, 16)
				addr[0], addr[1] = 0x20, 0x01
				binary.BigEndian.PutUint64(addr[8:], r)
			}
			id := uint16(256 + (r>>40)%2000)
			s := c04Slot{Addr: addr, ID: id}
			h := fnvKey(addr, id)
			if o, ok := seen[h]; ok {
				if hex.EncodeToString(o.Addr) != hex.EncodeToString(addr) || o.ID != id {
					fullCollide = append(fullCollide, keyPair{o, s})
				}
				continue
			}
			seen[h] = s
		}
		// textual twins: B's address text = A's text + digit(s) d, idA = d || idB (decimal), same shard
		for last := 1; last <= 25 && len(textTwins) < 48; last++ {
			for k := 0; k <= 9; k++ {
				if last*10+k > 255 {
					continue
				}
				for idB := 256; idB < 6553 && len(textTwins) < 48; idB++ {
					idA, _ := strconv.Atoi(strconv.Itoa(k) + strconv.Itoa(idB))
					if k == 0 || idA > 65535 || idA < 256 {
						continue
					}
					for _, form := range []int{4, 16} {
						a := net.IPv4(10, 0, 0, byte(last)).To4()
						b := net.IPv4(10, 0, 0, byte(last*10+k)).To4()
						if form == 16 {
							a, b = a.To16(), b.To16()
						}
						A := c04Slot{Addr: append([]byte{}, a...), ID: uint16(idA)}
						B := c04Slot{Addr: append([]byte{}, b...), ID: uint16(idB)}
						if fnvKey(A.Addr, A.ID)%32 == fnvKey(B.Addr, B.ID)%32 {
							textTwins = append(textTwins, keyPair{A, B})
						}
					}
				}
			}
		}
		// IPv6 twins: 2001:db8::1 + "4512" vs 2001:db8::14 + "512"
		for lo := 1; lo <= 9 && len(textTwins) < 64; lo++ {
			for k := 1; k <= 9; k++ {
				for idB := 256; idB < 6553 && len(textTwins) < 64; idB++ {
					idA, _ := strconv.Atoi(strconv.Itoa(k) + strconv.Itoa(idB))
					if idA > 65535 {
						continue
					}
					a := net.ParseIP(fmt.Sprintf("2001:db8::%d", lo))
					b := net.ParseIP(fmt.Sprintf("2001:db8::%d%d", lo, k))
					A := c04Slot{Addr: append([]byte{}, a...), ID: uint16(idA)}
					B := c04Slot{Addr: append([]byte{}, b...), ID: uint16(idB)}
					if fnvKey(A.Addr, A.ID)%32 == fnvKey(B.Addr, B.ID)%32 {
						textTwins = append(textTwins, keyPair{A, B})
					}
				}
			}
		}
		// same-shard pairs are trivial to find
		var first [32]*c04Slot
		for i := 0; i < 2000 && len(shardCollide) < 64; i++ {
			r := next()
			s := c04Slot{Addr: []byte{192, 0, 2, byte(r)}, ID: uint16(256 + (r>>8)%500)}
			sh := fnvKey(s.Addr, s.ID) % 32
			if first[sh] == nil {
				c := s
				first[sh] = &c
			} else if first[sh].ID != s.ID || first[sh].Addr[3] != s.Addr[3] {
				shardCollide = append(shardCollide, keyPair{*first[sh], s})
			}
		}
	})
}

// ---------------------------------------------------------------- generator

func mapped4(a []byte) string {
	if ip := net.IP(a).To4(); ip != nil {
		return hex.EncodeToString(ip)
	}
	return hex.EncodeToString(a)
}

// addJunk puts data sets of never-announced template ids in front of some sets of a mixed message (in a quarter of the
// messages; counts around the 3- and 4-bit marks and a few dozen).
func addJunk(t *rapid.T, op *c04Op) {
	if len(op.Sets) == 0 || rapid.IntRange(0, 3).Draw(t, "withjunk") != 0 {
		return
	}
	for k, n := 0, rapid.IntRange(1, 2).Draw(t, "junkplaces"); k < n; k++ {
		i := rapid.IntRange(0, len(op.Sets)-1).Draw(t, "junkat")
		op.Sets[i].Junk += rapid.SampledFrom([]int{1, 2, 7, 8, 9, 15, 16, 17, 40}).Draw(t, "njunk")
	}
}

func genC04(t *rapid.T, proto string, env *wire.GenEnv, opts ...string) c04Case {
	findCollisions()
	c := c04Case{Proto: proto}
	allowEmpty, allowWithdraw := false, false
	for _, o := range opts {
		allowEmpty = allowEmpty || o == "empty"
		allowWithdraw = allowWithdraw || o == "withdraw"
	}
	tolerant := map[int]bool{} // slots named by a field-less record and not re-announced since
	forms := map[string]int{}  // IPv4 address -> octet length used in this history
	okAddr := func(a []byte) bool {
		k := mapped4(a)
		if l, ok := forms[k]; ok && l != len(a) {
			return false // never both forms of one IPv4 address in one history
		}
		forms[k] = len(a)
		return true
	}
	addSlot := func(s c04Slot) {
		for _, o := range c.Slots {
			if hex.EncodeToString(o.Addr) == hex.EncodeToString(s.Addr) && o.ID == s.ID {
				return
			}
		}
		if okAddr(s.Addr) {
			c.Slots = append(c.Slots, s)
		}
	}
	switch rapid.IntRange(0, 4).Draw(t, "adversarial") {
	case 4:
		if len(textTwins) > 0 {
			p := textTwins[rapid.IntRange(0, len(textTwins)-1).Draw(t, "texttwin")]
			addSlot(p.A)
			addSlot(p.B)
		}
	case 0:
		if len(fullCollide) > 0 {
			p := fullCollide[rapid.IntRange(0, len(fullCollide)-1).Draw(t, "fullpair")]
			addSlot(p.A)
			addSlot(p.B)
		}
	case 1:
		p := shardCollide[rapid.IntRange(0, len(shardCollide)-1).Draw(t, "shardpair")]
		addSlot(p.A)
		addSlot(p.B)
	}
	nexp := rapid.IntRange(1, 3).Draw(t, "nexp")
	nid := rapid.IntRange(1, 3).Draw(t, "nid")
	var ids []uint16
	for i := 0; i < nid; i++ {
		ids = append(ids, wire.GenTemplateID(t))
	}
	for i := 0; i < nexp; i++ {
		a := wire.GenExporter(t)
		for _, id := range ids {
			addSlot(c04Slot{Addr: a, ID: id})
		}
	}
	if len(c.Slots) < 2 {
		addSlot(c04Slot{Addr: []byte{203, 0, 113, 9}, ID: ids[0]})
		addSlot(c04Slot{Addr: []byte{203, 0, 113, 10}, ID: ids[0]})
	}
	model := map[int]*wire.Template{}
	earlier := map[int][]wire.Template{} // definitions a slot had before its current one
	nops := rapid.IntRange(2, 30).Draw(t, "nops")
	for i := 0; i < nops; i++ {
		slot := rapid.IntRange(0, len(c.Slots)-1).Draw(t, "slot")
		cur := model[slot]
		kind := rapid.IntRange(0, 9).Draw(t, "opkind")
		if allowWithdraw && proto == "ipfix" && cur != nil && cur.MinRecordLen() > 0 && rapid.IntRange(0, 9).Draw(t, "withdraw") == 0 {
			var same []int
			for j := range c.Slots {
				if string(c.Slots[j].Addr) == string(c.Slots[slot].Addr) {
					same = append(same, j)
				}
			}
			op := c04Op{Op: "withdraw", Slot: slot, Other: -1, All: rapid.IntRange(0, 3).Draw(t, "wall") == 0}
			// records behind the field-less one, in the same set: re-announcements (plain templates only: set id 2)
			for _, j := range same {
				if rapid.IntRange(0, 2).Draw(t, "wre") != 0 {
					continue
				}
				tp := env.GenTemplate(t, c.Slots[j].ID)
				for try := 0; tp.Options && try < 8; try++ {
					tp = env.GenTemplate(t, c.Slots[j].ID)
				}
				if tp.Options {
					continue
				}
				op.Tpls = append(op.Tpls, tp)
				op.SlotsOf = append(op.SlotsOf, j)
			}
			reann := map[int]bool{}
			for _, j := range op.SlotsOf {
				reann[j] = true
			}
			if !reann[slot] && rapid.Bool().Draw(t, "wdataold") {
				op.DataOld = env.GenDataSet(t, cur, 2).Recs
			}
			// a data set of a slot the record does not concern (options templates are never concerned; with All every
			// plain template of the exporter is)
			for _, j := range same {
				tj := model[j]
				if j == slot || reann[j] || tolerant[j] || tj == nil || tj.MinRecordLen() == 0 || (op.All && !tj.Options) {
					continue
				}
				if rapid.Bool().Draw(t, "wother") {
					op.Other = j
					op.DataOth = env.GenDataSet(t, tj, 2).Recs
					break
				}
			}
			c.Ops = append(c.Ops, op)
			if !reann[slot] {
				tolerant[slot] = true
			}
			if op.All {
				for _, j := range same {
					if model[j] != nil && !model[j].Options && !reann[j] {
						tolerant[j] = true
					}
				}
			}
			for k, j := range op.SlotsOf {
				tp := op.Tpls[k]
				model[j] = &tp
				delete(tolerant, j)
			}
			continue
		}
		if tolerant[slot] && kind >= 4 && kind <= 8 {
			// a slot in that state is only re-announced, looked up, or sent plain data
			kind = rapid.SampledFrom([]int{2, 3, 4, 9}).Draw(t, "tolkind")
		}
		switch {
		case kind == 7:
			// one message whose template set(s) carry the template records of SEVERAL ids of this exporter, in a drawn
			// order (so a shorter record may follow a longer one), followed by data for them
			var same []int
			for j := range c.Slots {
				if string(c.Slots[j].Addr) == string(c.Slots[slot].Addr) {
					same = append(same, j)
				}
			}
			op := c04Op{Op: "mixed", Slot: slot}
			for _, k := range rapid.Permutation(intRange(len(same))).Draw(t, "multiorder") {
				j := same[k]
				var tp wire.Template
				switch {
				case model[j] != nil && rapid.IntRange(0, 2).Draw(t, "multiredef") == 0:
					tp = redefineSameLength(t, env, model[j])
				default:
					tp = env.GenTemplate(t, c.Slots[j].ID)
				}
				op.Sets = append(op.Sets, c04MixedSet{Slot: j, Tpl: &tp, Join: true})
				model[j] = &tp
				delete(tolerant, j)
			}
			if rapid.IntRange(0, 3).Draw(t, "manyrecords") == 0 {
				// a long template set: the same few ids announced over and over, 13..40 records in all (counts around the
				// 4- and 5-bit marks); whatever the set's length, the last record of an id is the one in force
				for total := rapid.SampledFrom([]int{13, 14, 15, 16, 17, 24, 31, 32, 33, 40}).Draw(t, "nrecords"); len(op.Sets) < total; {
					j := same[rapid.IntRange(0, len(same)-1).Draw(t, "againslot")]
					var tp wire.Template
					if rapid.Bool().Draw(t, "againredef") {
						tp = redefineSameLength(t, env, model[j])
					} else {
						tp = env.GenTemplate(t, c.Slots[j].ID)
					}
					// (records of the other kind, plain / options, open a set of their own: Join only joins same-kind sets)
					op.Sets = append(op.Sets, c04MixedSet{Slot: j, Tpl: &tp, Join: true})
					model[j] = &tp
				}
			}
			for k, nd := 0, rapid.IntRange(1, 3).Draw(t, "multidata"); k < nd; k++ {
				j := same[rapid.IntRange(0, len(same)-1).Draw(t, "multidataslot")]
				if model[j].MinRecordLen() == 0 {
					continue
				}
				ds := env.GenDataSet(t, model[j], 3)
				op.Sets = append(op.Sets, c04MixedSet{Slot: j, Recs: ds.Recs, Pad: ds.Pad})
			}
			addJunk(t, &op)
			c.Ops = append(c.Ops, op)
		case kind == 8:
			// one message: data / re-announcement / data ... for the slots of this exporter
			var same []int
			for j := range c.Slots {
				if string(c.Slots[j].Addr) == string(c.Slots[slot].Addr) {
					same = append(same, j)
				}
			}
			op := c04Op{Op: "mixed", Slot: slot}
			local := map[int]*wire.Template{}
			for _, j := range same {
				local[j] = model[j]
				if tolerant[j] {
					local[j] = nil // must be announced again before data of it appears
				}
			}
			ns := rapid.IntRange(2, 5).Draw(t, "mixedsets")
			for k := 0; k < ns; k++ {
				j := same[rapid.IntRange(0, len(same)-1).Draw(t, "mixedslot")]
				if local[j] == nil || local[j].MinRecordLen() == 0 || rapid.IntRange(0, 2).Draw(t, "mixedannounce") == 0 {
					var tp wire.Template
					if local[j] != nil && rapid.IntRange(0, 2).Draw(t, "mixedredef") == 0 {
						tp = redefineSameLength(t, env, local[j])
					} else if local[j] != nil && proto == "ipfix" && rapid.Bool().Draw(t, "mixedotherlen") {
						tp = redefineOtherLengths(t, local[j])
					} else {
						tp = env.GenTemplate(t, c.Slots[j].ID)
					}
					op.Sets = append(op.Sets, c04MixedSet{Slot: j, Tpl: &tp, Join: rapid.Bool().Draw(t, "mixedjoin")})
					local[j] = &tp
					delete(tolerant, j)
				} else {
					ds := env.GenDataSet(t, local[j], 3)
					op.Sets = append(op.Sets, c04MixedSet{Slot: j, Recs: ds.Recs, Pad: ds.Pad})
				}
			}
			for _, j := range same {
				if local[j] != nil {
					model[j] = local[j]
				}
			}
			addJunk(t, &op)
			c.Ops = append(c.Ops, op)
		case proto == "ipfix" && cur != nil && cur.MinRecordLen() > 0 && !tolerant[slot] && rapid.IntRange(0, 11).Draw(t, "overrun") == 0:
			hidden := env.GenTemplate(t, c.Slots[slot].ID)
			ds := env.GenDataSet(t, cur, 3)
			a := rapid.IntRange(0, 3).Draw(t, "overruna")
			c.Ops = append(c.Ops, c04Op{Op: "overrun", Slot: slot, Tpl: &hidden, Recs: ds.Recs, Pad: ds.Pad, A: a, N: a + 4 + rapid.IntRange(0, 40).Draw(t, "overrunf")})
		case cur == nil && kind <= 1:
			c.Ops = append(c.Ops, c04Op{Op: "unknown", Slot: slot})
		case kind == 9 && proto == "ipfix":
			c.Ops = append(c.Ops, c04Op{Op: "peerget", Slot: slot})
		case cur == nil || kind <= 3:
			var tp wire.Template
			switch {
			case allowEmpty && cur != nil && cur.MinRecordLen() > 0 && rapid.IntRange(0, 5).Draw(t, "emptyredef") == 0:
				// the id is re-announced with fields of length zero: records of it cannot be delimited any more, data
				// naming it is reported and yields nothing — in particular not records of the superseded definition
				tp = wire.Template{ID: cur.ID}
				for k, nz := 0, rapid.IntRange(1, 3).Draw(t, "nzero"); k < nz; k++ {
					f := env.GenField(t)
					f.Len = 0
					tp.Fields = append(tp.Fields, f)
				}
			case cur != nil && len(earlier[slot]) > 0 && rapid.IntRange(0, 3).Draw(t, "backto") == 0:
				// back to a definition the slot had before (A, B, A: the announcement is octet for octet one the collector
				// has seen, and it is the exporter's latest all the same)
				tp = earlier[slot][rapid.IntRange(0, len(earlier[slot])-1).Draw(t, "backtowhich")]
			case cur != nil && rapid.IntRange(0, 2).Draw(t, "redefkind") == 0:
				tp = redefineSameLength(t, env, cur)
			case cur != nil && rapid.IntRange(0, 1).Draw(t, "redefkind2") == 0:
				tp = redefineOtherLengths(t, cur)
				if proto == "nf9" {
					for i := range tp.Fields {
						if tp.Fields[i].Len == wire.VarLen {
							tp.Fields[i].Len = 3
						}
					}
					for i := range tp.Scope {
						if tp.Scope[i].Len == wire.VarLen {
							tp.Scope[i].Len = 3
						}
					}
				}
			case len(twinsOf(model, slot)) > 0 && rapid.IntRange(0, 3).Draw(t, "twin") == 0:
				// a twin of another key's current definition: the very same definition under this key, or the same elements
				// with other field lengths (two interface types of one vendor): keys are independent however alike their
				// templates are, now and after one of them changes
				o := twinsOf(model, slot)
				src := model[o[rapid.IntRange(0, len(o)-1).Draw(t, "twinof")]]
				if rapid.Bool().Draw(t, "twinexact") {
					tp = *src
				} else {
					tp = redefineOtherLengths(t, src)
				}
				tp.ID = c.Slots[slot].ID
				if proto == "nf9" {
					for i := range tp.Fields {
						if tp.Fields[i].Len == wire.VarLen {
							tp.Fields[i].Len = 3
						}
					}
					for i := range tp.Scope {
						if tp.Scope[i].Len == wire.VarLen {
							tp.Scope[i].Len = 3
						}
					}
				}
			default:
				tp = env.GenTemplate(t, c.Slots[slot].ID)
			}
			op := c04Op{Op: "announce", Slot: slot, Tpl: &tp}
			if tp.MinRecordLen() > 0 && rapid.IntRange(0, 2).Draw(t, "withdata") == 0 {
				op.Op = "announce+data"
				ds := env.GenDataSet(t, &tp, 3)
				op.Recs, op.Pad = ds.Recs, ds.Pad
			}
			c.Ops = append(c.Ops, op)
			if cur != nil {
				earlier[slot] = append(earlier[slot], *cur)
			}
			model[slot] = &tp
			delete(tolerant, slot)
		default:
			if cur.MinRecordLen() == 0 {
				// data naming a template that describes empty records: the runner sends an arbitrary body
				c.Ops = append(c.Ops, c04Op{Op: "data", Slot: slot})
				continue
			}
			ds := env.GenDataSet(t, cur, 4)
			c.Ops = append(c.Ops, c04Op{Op: "data", Slot: slot, Recs: ds.Recs, Pad: ds.Pad})
		}
	}
	if rapid.IntRange(0, 2).Draw(t, "hdrs") == 0 {
		for i := range c.Ops {
			if rapid.Bool().Draw(t, "sethdr") {
				c.Ops[i].SetHdr = true
				c.Ops[i].Seq = rapid.OneOf(rapid.SampledFrom([]uint32{0, 1, 2, 0x7fffffff, 0x80000000, 0x80000001, 0xffffffff, 1000}), rapid.Uint32()).Draw(t, "hdrseq")
				c.Ops[i].Domain = rapid.SampledFrom([]uint32{7, 7, 0, 1, 8, 0xffffffff}).Draw(t, "hdrdomain")
				c.Ops[i].Time = rapid.OneOf(rapid.SampledFrom([]uint32{0, 1, 1000, 0x7fffffff, 0x80000000, 0xffffffff, 1700000000, 1600000000}), rapid.Uint32()).Draw(t, "hdrtime")
			}
		}
	}
	return c
}

// twinsOf lists the other slots that have a template with records of at least one octet at the moment.
func twinsOf(model map[int]*wire.Template, slot int) []int {
	var out []int
	for j, tp := range model {
		if j != slot && tp != nil && tp.MinRecordLen() > 0 {
			out = append(out, j)
		}
	}
	sort.Ints(out)
	return out
}

func redefineOtherLengths(t *rapid.T, cur *wire.Template) wire.Template {
	return wire.RedefineOtherLengths(t, cur)
}

// redefineSameLength returns a template with the same field lengths but other elements
// (so a stale template still parses and only ids / values expose it).
func redefineSameLength(t *rapid.T, env *wire.GenEnv, cur *wire.Template) wire.Template {
	tp := wire.Template{ID: cur.ID, Options: cur.Options}
	swap := func(fs []wire.Field) []wire.Field {
		var out []wire.Field
		for _, f := range fs {
			nf := f
			for try := 0; try < 4; try++ {
				g := env.GenField(t)
				if g.Type == f.Type || (wire.NaturalSize(g.Type) == 0 && wire.NaturalSize(f.Type) == 0 && g.Type != wire.TUnknown) ||
					(f.Len != wire.VarLen && wire.NaturalSize(g.Type) == int(f.Len)) {
					if f.Len == wire.VarLen && !wire.IsVarType(g.Type) {
						continue
					}
					nf = wire.Field{PEN: g.PEN, ID: g.ID, Type: g.Type, Len: f.Len}
					break
				}
			}
			out = append(out, nf)
		}
		return out
	}
	tp.Scope = swap(cur.Scope)
	tp.Fields = swap(cur.Fields)
	if len(tp.Fields) >= 2 && rapid.Bool().Draw(t, "rotate") {
		tp.Fields = append(tp.Fields[1:], tp.Fields[0])
	}
	return tp
}

// ---------------------------------------------------------------- execution

func sameSpec(got []ipfix.TemplateFieldSpecifier, want []wire.Field) bool {
	if len(got) != len(want) {
		return false
	}
	for i := range want {
		if got[i].ElementID != want[i].ID || got[i].Length != want[i].Len || got[i].EnterpriseNo != want[i].PEN {
			return false
		}
	}
	return true
}

func runC04(c *c04Case) (v verdict, sig string, err error) {
	v, sig, err, _, _ = runC04x(c)
	return
}

// runC04x additionally returns the cache and the model at the end of the history (used by C11, C10).
func runC04x(c *c04Case) (v verdict, sig string, err error, cache *flowCache, model map[int]*wire.Template) {
	if len(c.Slots) == 0 {
		return v, "", fmt.Errorf("bad case: no slots"), nil, nil
	}
	cache = newFlowCache(c.Proto)
	model = map[int]*wire.Template{}
	reannounced := map[int]bool{}
	dataAfterRe := false
	inMsgRe := false // data, re-announcement, data of one id inside one message
	multiTplSet := false
	emptyRedef := false
	tolerant := map[int]bool{} // slots named by a field-less template record and not re-announced since
	lastC04Tolerant = tolerant
	withdrawSeen := false
	seq := uint32(1)
	var cur *c04Op
	nonMonotonic := false
	hdr := func() wire.Msg {
		seq++
		m := wire.Msg{Proto: c.Proto, Seq: seq, Time: 1000 + seq, Domain: 7, Count: 1}
		if cur != nil && cur.SetHdr {
			m.Seq, m.Domain, m.Time = cur.Seq, cur.Domain, cur.Time
			nonMonotonic = true
		}
		return m
	}
	for i, op := range c.Ops {
		cur = &c.Ops[i]
		if ms := c.Pauses[i]; ms > 0 && ms <= 5000 {
			time.Sleep(time.Duration(ms) * time.Millisecond)
			v.label(true, "time-passes-between-operations")
			v.label(ms >= 1000, "pause>=1s")
		}
		if op.Slot < 0 || op.Slot >= len(c.Slots) {
			return v, "", fmt.Errorf("bad case: slot index"), cache, model
		}
		sl := c.Slots[op.Slot]
		addr := wire.ExactIP(sl.Addr)
		step := func(format string, a ...interface{}) error {
			return fmt.Errorf("step %d (%s, exporter %x id %d): %s", i, op.Op, []byte(sl.Addr), sl.ID, fmt.Sprintf(format, a...))
		}
		switch op.Op {
		case "announce", "announce+data":
			if op.Tpl == nil || op.Tpl.ID != sl.ID {
				return v, "", fmt.Errorf("bad case: announce without template for the slot's id"), cache, model
			}
			m := hdr()
			kind := "tpl"
			if op.Tpl.Options {
				kind = "opt"
			}
			m.Sets = append(m.Sets, wire.Set{Kind: kind, Tpls: []wire.Template{*op.Tpl}})
			if op.Op == "announce+data" {
				m.Sets = append(m.Sets, wire.Set{Kind: "data", Tpl: op.Tpl, Recs: op.Recs, Pad: op.Pad})
			}
			if len(m.Bytes()) > 65507 {
				// does not fit a datagram: outside the domain; the history ends here
				v.label(true, "history-cut-at-oversize-message")
				return v, "", nil, cache, model
			}
			res, perr := cache.decodeFlow(addr, m.Bytes())
			if perr != nil {
				return v, "panic", step("%v", perr), cache, model
			}
			if res.Nil || res.Err != nil {
				return v, "announce", step("announcement rejected: nil=%v err=%v", res.Nil, res.Err), cache, model
			}
			if d := wire.CompareRecords(res.Recs, wire.ExpectMsg(&m)); d != "" {
				return v, "inmsg", step("data in the announcing message: %s", d), cache, model
			}
			if model[op.Slot] != nil {
				reannounced[op.Slot] = true
			}
			model[op.Slot] = op.Tpl
			delete(tolerant, op.Slot)
		case "withdraw":
			if c.Proto != "ipfix" || model[op.Slot] == nil || len(op.Tpls) != len(op.SlotsOf) {
				return v, "", fmt.Errorf("bad case: withdraw"), cache, model
			}
			withdrawSeen = true
			m := hdr()
			rec := wire.Template{ID: sl.ID} // no fields: encodes as [id, 0]
			if op.All {
				rec.ID = 2
			}
			ts := wire.Set{Kind: "tpl", Tpls: []wire.Template{rec}}
			reann := map[int]bool{}
			for k, j := range op.SlotsOf {
				if j < 0 || j >= len(c.Slots) || string(c.Slots[j].Addr) != string(sl.Addr) || op.Tpls[k].ID != c.Slots[j].ID || op.Tpls[k].Options {
					return v, "", fmt.Errorf("bad case: withdraw re-announcement"), cache, model
				}
				ts.Tpls = append(ts.Tpls, op.Tpls[k])
				reann[j] = true
			}
			m.Sets = append(m.Sets, ts)
			old := model[op.Slot]
			// state after the template set
			if !reann[op.Slot] {
				tolerant[op.Slot] = true
			}
			if op.All {
				for j := range c.Slots {
					if string(c.Slots[j].Addr) == string(sl.Addr) && model[j] != nil && !model[j].Options && !reann[j] {
						tolerant[j] = true
					}
				}
			}
			for k, j := range op.SlotsOf {
				tp := op.Tpls[k]
				model[j] = &tp
				delete(tolerant, j)
			}
			var wantOld, wantOth []wire.ExpRecord
			if len(op.DataOld) > 0 && tolerant[op.Slot] {
				m.Sets = append(m.Sets, wire.Set{Kind: "data", Tpl: old, Recs: op.DataOld})
				for r := range op.DataOld {
					wantOld = append(wantOld, wire.ExpectRecord(old, &op.DataOld[r]))
				}
			}
			if op.Other >= 0 && len(op.DataOth) > 0 {
				if op.Other >= len(c.Slots) || string(c.Slots[op.Other].Addr) != string(sl.Addr) || model[op.Other] == nil || tolerant[op.Other] {
					return v, "", fmt.Errorf("bad case: withdraw other"), cache, model
				}
				ot := model[op.Other]
				m.Sets = append(m.Sets, wire.Set{Kind: "data", Tpl: ot, Recs: op.DataOth})
				for r := range op.DataOth {
					wantOth = append(wantOth, wire.ExpectRecord(ot, &op.DataOth[r]))
				}
			}
			if len(m.Bytes()) > 65507 {
				return v, "", nil, cache, model
			}
			res, perr := cache.decodeFlow(addr, m.Bytes())
			if perr != nil {
				return v, "panic", step("%v", perr), cache, model
			}
			if res.Nil {
				return v, "withdraw-lost", step("a message holding a field-less template record (and the sets behind it) was dropped entirely: %v", res.Err), cache, model
			}
			// the named slot's data: decoded as before, or nothing (then reported); the other slot's data: always
			a := wire.CompareRecords(res.Recs, append(append([]wire.ExpRecord{}, wantOld...), wantOth...))
			b := wire.CompareRecords(res.Recs, wantOth)
			if a != "" && (b != "" || (len(wantOld) > 0 && res.Err == nil)) {
				return v, "withdraw-neighbours", step("after a field-less template record for this id (all=%v), the data sets behind it decode neither as before nor with the named template's set skipped and reported; the records of a template the record does not concern must be there: %s", op.All, b), cache, model
			}
		case "mixed":
			m := hdr()
			var want []wire.ExpRecord
			junkSets := 0
			staleRisk := false
			seenData := map[int]bool{}
			for _, ms := range op.Sets {
				if ms.Slot < 0 || ms.Slot >= len(c.Slots) || string(c.Slots[ms.Slot].Addr) != string(sl.Addr) {
					return v, "", fmt.Errorf("bad case: mixed set for another exporter"), cache, model
				}
				if ms.Junk > 0 {
					if ms.Junk > 400 {
						return v, "", fmt.Errorf("bad case: junk"), cache, model
					}
					for q := 0; q < ms.Junk; q++ {
						// an id none of the case's slots uses
						id := uint16(40000 + (junkSets+q)%20000)
						for clash := true; clash; {
							clash = false
							for _, o := range c.Slots {
								if o.ID == id {
									clash, id = true, id+1
								}
							}
						}
						m.Sets = append(m.Sets, wire.Set{Kind: "raw", RawID: id, RawBody: []byte{byte(q), 2, 3, 4}})
					}
					junkSets += ms.Junk
				}
				if ms.Tpl != nil {
					if ms.Tpl.ID != c.Slots[ms.Slot].ID {
						return v, "", fmt.Errorf("bad case: mixed announce with a foreign id"), cache, model
					}
					kind := "tpl"
					if ms.Tpl.Options {
						kind = "opt"
					}
					if n := len(m.Sets); ms.Join && n > 0 && m.Sets[n-1].Kind == kind {
						m.Sets[n-1].Tpls = append(m.Sets[n-1].Tpls, *ms.Tpl)
						multiTplSet = true
					} else {
						m.Sets = append(m.Sets, wire.Set{Kind: kind, Tpls: []wire.Template{*ms.Tpl}})
					}
					if model[ms.Slot] != nil {
						reannounced[ms.Slot] = true
					}
					if seenData[ms.Slot] {
						staleRisk = true
					}
					model[ms.Slot] = ms.Tpl
					delete(tolerant, ms.Slot)
					continue
				}
				tp := model[ms.Slot]
				if tp == nil || tolerant[ms.Slot] {
					return v, "", fmt.Errorf("bad case: mixed data before announce"), cache, model
				}
				m.Sets = append(m.Sets, wire.Set{Kind: "data", Tpl: tp, Recs: ms.Recs, Pad: ms.Pad})
				for r := range ms.Recs {
					want = append(want, wire.ExpectRecord(tp, &ms.Recs[r]))
				}
				if reannounced[ms.Slot] {
					dataAfterRe = true
				}
				if staleRisk && seenData[ms.Slot] {
					inMsgRe = true
				}
				seenData[ms.Slot] = true
			}
			if len(m.Bytes()) > 65507 {
				// does not fit a datagram: outside the domain; the history ends here
				v.label(true, "history-cut-at-oversize-message")
				return v, "", nil, cache, model
			}
			res, perr := cache.decodeFlow(addr, m.Bytes())
			if perr != nil {
				return v, "panic", step("%v", perr), cache, model
			}
			if res.Nil || (res.Err != nil && junkSets == 0) {
				return v, "mixed-error", step("message mixing announcements and data failed: nil=%v err=%v", res.Nil, res.Err), cache, model
			}
			if junkSets > 0 {
				v.label(true, "mixed-message-with-unknown-template-sets-in-front")
				v.label(junkSets >= 8, "mixed-message-with->=8-unknown-template-sets")
				if res.Err == nil {
					return v, "not-reported", step("%d data sets of never-announced templates in the message, none reported", junkSets), cache, model
				}
			}
			if d := wire.CompareRecords(res.Recs, want); d != "" {
				return v, "wrong-template", step("a data set was not decoded with the template most recently announced (earlier in the same message or before): %s", d), cache, model
			}
		case "overrun":
			tp := model[op.Slot]
			if c.Proto != "ipfix" || tp == nil || op.Tpl == nil || op.Tpl.ID != sl.ID || op.A < 0 || op.A > 3 || op.N < op.A+4 || op.N > 254 {
				return v, "", fmt.Errorf("bad case: overrun at step %d", i), cache, model
			}
			// two ids this exporter does not use
			free := func(from uint16) uint16 {
				id := from
				for clash := true; clash; {
					clash = false
					for _, o := range c.Slots {
						if o.ID == id {
							clash, id = true, id+1
						}
					}
				}
				return id
			}
			varID := free(61000)
			unkID := free(varID + 1)
			vt := wire.Template{ID: varID, Fields: []wire.Field{{ID: 82, Len: wire.VarLen, Type: wire.TString}}}
			am := hdr()
			am.Sets = []wire.Set{{Kind: "tpl", Tpls: []wire.Template{vt}}}
			if res, perr := cache.decodeFlow(addr, am.Bytes()); perr != nil || res.Nil || res.Err != nil {
				return v, "announce-rejected", step("announcing a template with one variable-length field failed: %v %v", perr, res.Err), cache, model
			}
			// the hidden template set, serialised by the builder (a message of its own, header stripped)
			hk := "tpl"
			if op.Tpl.Options {
				hk = "opt"
			}
			hm := wire.Msg{Proto: "ipfix", Sets: []wire.Set{{Kind: hk, Tpls: []wire.Template{*op.Tpl}}}}
			hidden := hm.Bytes()[16:]
			f := op.N - op.A - 4
			var body []byte
			// set 1: data of the variable-length template, declared length 4+1+A; its one record claims N octets
			body = append(body, byte(varID>>8), byte(varID), 0, byte(4+1+op.A), byte(op.N))
			for k := 0; k < op.A; k++ {
				body = append(body, 'x')
			}
			// set 2 by the message's framing: never-announced template, body = f filler octets + the hidden template set
			l2 := 4 + f + len(hidden)
			body = append(body, byte(unkID>>8), byte(unkID), byte(l2>>8), byte(l2))
			for k := 0; k < f; k++ {
				body = append(body, 'y')
			}
			body = append(body, hidden...)
			mm := hdr()
			total := 16 + len(body)
			raw := []byte{0, 10, byte(total >> 8), byte(total), byte(mm.Time >> 24), byte(mm.Time >> 16), byte(mm.Time >> 8), byte(mm.Time),
				byte(mm.Seq >> 24), byte(mm.Seq >> 16), byte(mm.Seq >> 8), byte(mm.Seq), byte(mm.Domain >> 24), byte(mm.Domain >> 16), byte(mm.Domain >> 8), byte(mm.Domain)}
			raw = append(raw, body...)
			if _, perr := cache.decodeFlow(addr, raw); perr != nil {
				return v, "panic", step("%v", perr), cache, model
			}
			// whatever became of that message: the slot's template is the one its exporter announced last
			dm := hdr()
			dm.Sets = append(dm.Sets, wire.Set{Kind: "data", Tpl: tp, Recs: op.Recs, Pad: op.Pad})
			if len(dm.Bytes()) > 65507 {
				v.label(true, "history-cut-at-oversize-message")
				return v, "", nil, cache, model
			}
			res, perr := cache.decodeFlow(addr, dm.Bytes())
			if perr != nil {
				return v, "panic", step("%v", perr), cache, model
			}
			var want []wire.ExpRecord
			for r := range op.Recs {
				want = append(want, wire.ExpectRecord(tp, &op.Recs[r]))
			}
			if res.Nil || res.Err != nil {
				return v, "overrun-template", step("after a malformed message (a record running %d octets past the end of its set), data under the template announced last fails: nil=%v err=%v", op.N-op.A, res.Nil, res.Err), cache, model
			}
			if d := wire.CompareRecords(res.Recs, want); d != "" {
				return v, "overrun-template", step("after a malformed message (a record running %d octets past the end of its set, over octets that read as a template set from where a reader that lost the set boundary stands), the slot's data is no longer decoded with the template its exporter announced last: %s", op.N-op.A, d), cache, model
			}
			v.label(true, "record-running-past-the-end-of-its-set")
		case "data":
			tp := model[op.Slot]
			if tp == nil {
				return v, "", fmt.Errorf("bad case: data before announce at step %d", i), cache, model
			}
			m := hdr()
			if tp.MinRecordLen() == 0 {
				m.Sets = append(m.Sets, wire.Set{Kind: "raw", RawID: sl.ID, RawBody: []byte{1, 2, 3, 4, 5, 6, 7, 8, 9, 10, 11, 12}})
				res, perr := cache.decodeFlow(addr, m.Bytes())
				if perr != nil {
					return v, "panic", step("%v", perr), cache, model
				}
				if len(res.Recs) != 0 {
					return v, "stale-template", step("the exporter's latest template for this id describes empty records, yet the data set yielded %d records (decoded with a superseded definition)", len(res.Recs)), cache, model
				}
				if res.Err == nil {
					return v, "not-reported", step("data naming a template that describes empty records is not reported"), cache, model
				}
				emptyRedef = true
				continue
			}
			m.Sets = append(m.Sets, wire.Set{Kind: "data", Tpl: tp, Recs: op.Recs, Pad: op.Pad})
			if len(m.Bytes()) > 65507 {
				// does not fit a datagram: outside the domain; the history ends here
				v.label(true, "history-cut-at-oversize-message")
				return v, "", nil, cache, model
			}
			res, perr := cache.decodeFlow(addr, m.Bytes())
			if perr != nil {
				return v, "panic", step("%v", perr), cache, model
			}
			if tolerant[op.Slot] {
				// named by a field-less record since its last announcement: decoded as before, or nothing and reported
				if !res.Nil && len(res.Recs) == 0 && res.Err != nil {
					continue
				}
				if res.Nil || res.Err != nil || wire.CompareRecords(res.Recs, wire.ExpectMsg(&m)) != "" {
					return v, "withdraw-data", step("data for an id named by a field-less template record decodes neither as before nor to nothing with an error: nil=%v err=%v", res.Nil, res.Err), cache, model
				}
				continue
			}
			if res.Nil || res.Err != nil {
				return v, "data-error", step("data under the exporter's current template failed: nil=%v err=%v", res.Nil, res.Err), cache, model
			}
			if d := wire.CompareRecords(res.Recs, wire.ExpectMsg(&m)); d != "" {
				return v, "wrong-template", step("not decoded with the exporter's latest template: %s", d), cache, model
			}
			if reannounced[op.Slot] {
				dataAfterRe = true
			}
		case "unknown":
			if model[op.Slot] != nil {
				return v, "", fmt.Errorf("bad case: 'unknown' op on an announced slot at step %d", i), cache, model
			}
			m := hdr()
			m.Sets = append(m.Sets, wire.Set{Kind: "raw", RawID: sl.ID, RawBody: []byte{0, 1, 2, 3, 4, 5, 6, 7, 8, 9, 10, 11}})
			if len(m.Bytes()) > 65507 {
				// does not fit a datagram: outside the domain; the history ends here
				v.label(true, "history-cut-at-oversize-message")
				return v, "", nil, cache, model
			}
			res, perr := cache.decodeFlow(addr, m.Bytes())
			if perr != nil {
				return v, "panic", step("%v", perr), cache, model
			}
			if len(res.Recs) != 0 {
				return v, "foreign-template", step("data for a template this exporter never announced yielded %d records (decoded with another exporter's or id's template)", len(res.Recs)), cache, model
			}
			if res.Err == nil || !strings.Contains(strings.ToLower(res.Err.Error()), "unknown") {
				return v, "not-reported", step("data for an unannounced template is not reported as unknown: err=%v", res.Err), cache, model
			}
		case "peerget":
			if c.Proto != "ipfix" {
				continue
			}
			var resp ipfix.TemplateRecord
			gerr := ipfix.NewRPC(cache.ix).Get(ipfix.RPCRequest{ID: sl.ID, IP: addr}, &resp)
			tp := model[op.Slot]
			if tp == nil {
				if gerr == nil {
					return v, "peer-foreign", step("peer Get for an unannounced (exporter, id) returned a template (id %d, %d fields)", resp.TemplateID, len(resp.FieldSpecifiers)), cache, model
				}
				continue
			}
			if tolerant[op.Slot] && (gerr != nil || len(resp.FieldSpecifiers)+len(resp.ScopeFieldSpecifiers) == 0) {
				continue // named by a field-less record: gone, or held as a template without fields
			}
			if gerr != nil {
				return v, "peer-missing", step("peer Get failed for an announced template: %v", gerr), cache, model
			}
			if resp.TemplateID != tp.ID || !sameSpec(resp.FieldSpecifiers, tp.Fields) || !sameSpec(resp.ScopeFieldSpecifiers, tp.Scope) {
				return v, "peer-wrong", step("peer Get returned a template other than the latest announced one"), cache, model
			}
		default:
			return v, "", fmt.Errorf("bad case: op %q", op.Op), cache, model
		}
	}
	// classification
	findCollisions()
	full, shard := false, false
	for i := range c.Slots {
		for j := i + 1; j < len(c.Slots); j++ {
			a, b := c.Slots[i], c.Slots[j]
			ha, hb := fnvKey(a.Addr, a.ID), fnvKey(b.Addr, b.ID)
			used := model[i] != nil && model[j] != nil
			if ha == hb && used {
				full = true
			} else if ha%32 == hb%32 && used {
				shard = true
			}
		}
	}
	sharedID := false
	byID := map[uint16][]int{}
	for i, s := range c.Slots {
		if model[i] != nil {
			byID[s.ID] = append(byID[s.ID], i)
		}
	}
	ids := make([]int, 0)
	for id := range byID {
		ids = append(ids, int(id))
	}
	sort.Ints(ids)
	for _, id := range ids {
		l := byID[uint16(id)]
		for a := 0; a < len(l); a++ {
			for b := a + 1; b < len(l); b++ {
				if string(mustJSON(model[l[a]])) != string(mustJSON(model[l[b]])) {
					sharedID = true
				}
			}
		}
	}
	v.label(true, "proto-"+c.Proto)
	v.label(full, "full-hash-collision-pair-in-use")
	v.label(shard, "same-shard-pair-in-use")
	v.label(dataAfterRe, "data-after-reannouncement")
	v.label(inMsgRe, "data-reannounce-data-in-one-message")
	v.label(multiTplSet, "several-template-records-in-one-set")
	v.label(emptyRedef, "data-after-redefinition-with-zero-length-fields")
	v.label(withdrawSeen, "field-less-template-record")
	v.label(nonMonotonic, "drawn-sequence-numbers-and-domains")
	v.label(sharedID, "one-id-different-definitions")
	for _, op := range c.Ops {
		v.label(op.Op == "unknown", "unknown-data")
		v.label(op.Op == "peerget", "peer-get")
		v.label(op.Op == "announce+data", "announce-with-data")
		v.label(op.Op == "mixed", "mixed-message")
	}
	v.NT = dataAfterRe || sharedID || full
	return v, "", nil, cache, model
}

func TestC04(t *testing.T) {
	installEnterprise()
	col := getCollector("C04", c04Rule)
	findCollisions()
	col.addExtra("full_hash_collision_pairs_found", len(fullCollide))
	if len(fullCollide) == 0 {
		t.Fatalf("harness: collision search found no colliding pair")
	}
	runRegress(t, "C04")
	envs := map[string]*wire.GenEnv{"ipfix": wire.NewGenEnv("ipfix"), "nf9": wire.NewGenEnv("nf9")}
	rapid.Check(t, func(t *rapid.T) {
		proto := rapid.SampledFrom([]string{"ipfix", "nf9"}).Draw(t, "proto")
		c := genC04(t, proto, envs[proto], "empty", "withdraw")
		v, sig, err := runC04(&c)
		col.report(t, mustJSON(c), v, sig, err)
	})
}

// TestC04Aged: histories in which time passes (20 ms .. 3.1 s, at most 4 s per history) before some operations.
func TestC04Aged(t *testing.T) {
	installEnterprise()
	envs := map[string]*wire.GenEnv{"ipfix": wire.NewGenEnv("ipfix"), "nf9": wire.NewGenEnv("nf9")}
	col := getCollector("C04", c04Rule)
	if !strings.Contains(col.Rule, "aged stage") {
		col.Rule += " | aged stage (a few histories per shard): the same histories with 1..3 pauses of 20 ms .. 3.1 s (at most 4 s in all) before drawn operations — the model does not know time: the latest announced definition counts however long ago it was announced"
	}
	n := 10
	if os.Getenv("VERIF_TIER") == "thorough" {
		n = 60
	}
	if s := os.Getenv("VERIF_AGED_CASES"); s != "" {
		if k, err := strconv.Atoi(s); err == nil && k >= 0 {
			n = k
		}
	}
	seed := e2eSeed()
	gen := rapid.Custom(func(t *rapid.T) c04Case {
		proto := rapid.SampledFrom([]string{"ipfix", "nf9"}).Draw(t, "proto")
		c := genC04(t, proto, envs[proto], "empty", "withdraw")
		c.Pauses = map[int]int{}
		total := 0
		for k, np := 0, rapid.IntRange(1, 3).Draw(t, "npauses"); k < np; k++ {
			ms := rapid.SampledFrom([]int{60, 400, 1100, 1100, 1600, 2100, 2100, 3100}).Draw(t, "pausems")
			if total+ms > 4000 {
				continue
			}
			total += ms
			// time that passes shows in what is decoded afterwards: mostly in front of a data operation
			var dataAt []int
			for i := 1; i < len(c.Ops); i++ {
				if c.Ops[i].Op == "data" || c.Ops[i].Op == "mixed" {
					dataAt = append(dataAt, i)
				}
			}
			at := rapid.IntRange(1, len(c.Ops)-1).Draw(t, "pauseat")
			if len(dataAt) > 0 && rapid.IntRange(0, 3).Draw(t, "pausebeforedata") > 0 {
				at = dataAt[rapid.IntRange(0, len(dataAt)-1).Draw(t, "pausedata")]
			}
			c.Pauses[at] += ms
		}
		return c
	})
	for i := 0; i < n; i++ {
		c := gen.Example(seed*100 + 70 + i)
		v, sig, err := runC04(&c)
		col.report(t, mustJSON(c), v, sig, err)
		col.addExtra("aged_histories", 1)
		if err != nil {
			return
		}
	}
}

func init() {
	registerReplay("C04", func(raw json.RawMessage) error {
		installEnterprise()
		var c c04Case
		if err := json.Unmarshal(raw, &c); err != nil {
			return err
		}
		_, _, err := runC04(&c)
		return err
	})
}
