package props

import (
	"fmt"
	"net/netip"
)

// ipTextOK reports whether got is a canonical text form of the address given by its octets
// (4 or 16). For IPv4-mapped IPv6 octets both the dotted IPv4 form and "::ffff:a.b.c.d" are accepted;
// every other address has exactly one canonical form (dotted quad / RFC 5952).
func ipTextOK(got string, octets []byte) bool {
	a, ok := netip.AddrFromSlice(octets)
	if !ok {
		return false
	}
	if got == a.String() {
		return true
	}
	if a.Is4In6() && got == a.Unmap().String() {
		return true
	}
	return false
}

func macText(o []byte) string {
	s := ""
	for i, b := range o {
		if i > 0 {
			s += ":"
		}
		s += fmt.Sprintf("%02x", b)
	}
	return s
}

// checkAgentID: the published AgentID must be the canonical text of the exporter address.
func checkAgentID(v interface{}, exporter []byte) string {
	s, ok := v.(string)
	if !ok {
		return fmt.Sprintf("JSON AgentID is %v, not a string", v)
	}
	if !ipTextOK(s, exporter) {
		return fmt.Sprintf("JSON AgentID %q is not the canonical text of exporter address %x", s, exporter)
	}
	return ""
}
