package props

// Shared plumbing for all property checks: statistics collector (evaluations,
// distinct non-trivial cases, class histogram, samples), replay-file writer,
// known-findings lookup and the generic replay entry point.
//
// Conventions
//   - every property P has   genP(t *rapid.T) caseP          (all random choices via rapid)
//                            runP(c caseP) (verdict, error)  (pure: code under test + oracle)
//     so that the rapid property is gen+run and a replay is json.Unmarshal+run.
//   - a verdict carries the non-triviality flag and the class labels of the case.
//   - failures are written as JSON replay files by failCase before t.Fatalf.

import (
	"encoding/json"
	"flag"
	"fmt"
	"hash/fnv"
	"os"
	"path/filepath"
	"sort"
	"strings"
	"sync"
	"testing"

	"pgregory.net/rapid"
)

var (
	flagOut    = flag.String("verif.out", "", "file to write the statistics of this run to (JSON)")
	flagReplay = flag.String("verif.replaydir", "", "directory for replay files of failing cases")
	flagCase   = flag.String("verif.case", "", "replay file to re-run (TestReplay)")
	flagShard  = flag.String("verif.shard", "0", "shard label used in replay file names")
	flagKnown  = flag.String("verif.known", "", "path of known_findings.json")
)

type verdict struct {
	NT     bool     // non-trivial by the property's rule
	Labels []string // class labels of the case
}

func (v *verdict) label(cond bool, l string) {
	if cond {
		v.Labels = append(v.Labels, l)
	}
}

type collector struct {
	mu          sync.Mutex
	Property    string            `json:"property"`
	Rule        string            `json:"rule"`
	Evaluations int               `json:"evaluations"`
	NTHashes    map[uint64]bool   `json:"-"`
	NTList      []uint64          `json:"nt_hashes"`
	Classes     map[string]int    `json:"classes"`
	Samples     []json.RawMessage `json:"samples"`
	Violations  int               `json:"violations"`
	Known       map[string]int    `json:"known"`
	Extra       map[string]int    `json:"extra"`
	Assumptions []string          `json:"assumptions"`
	ReplayFiles []string          `json:"replay_files"`
	maxSamples  int
	// sampler summarises cases that are too large to be written out in full as evidence samples
	sampler func(caseJSON []byte) []byte
}

var (
	collectorsMu sync.Mutex
	collectors   = map[string]*collector{}
)

func getCollector(prop, rule string) *collector {
	collectorsMu.Lock()
	defer collectorsMu.Unlock()
	if c, ok := collectors[prop]; ok {
		if rule != "" {
			c.Rule = rule
		}
		return c
	}
	c := &collector{Property: prop, Rule: rule, NTHashes: map[uint64]bool{}, Classes: map[string]int{},
		Known: map[string]int{}, Extra: map[string]int{}, maxSamples: 4}
	collectors[prop] = c
	return c
}

func hashBytes(b []byte) uint64 {
	h := fnv.New64a()
	h.Write(b)
	return h.Sum64()
}

func mustJSON(v interface{}) []byte {
	b, err := json.Marshal(v)
	if err != nil {
		panic(fmt.Sprintf("harness: cannot marshal case: %v", err))
	}
	return b
}

// record registers one evaluated case.
func (c *collector) record(caseJSON []byte, v verdict) {
	c.mu.Lock()
	defer c.mu.Unlock()
	c.Evaluations++
	for _, l := range v.Labels {
		c.Classes[l]++
	}
	if v.NT {
		h := hashBytes(caseJSON)
		if !c.NTHashes[h] {
			c.NTHashes[h] = true
			if len(c.Samples) < c.maxSamples {
				if len(caseJSON) < 6000 {
					c.Samples = append(c.Samples, json.RawMessage(append([]byte{}, caseJSON...)))
				} else if c.sampler != nil {
					if sj := c.sampler(caseJSON); len(sj) > 0 && len(sj) < 20000 {
						c.Samples = append(c.Samples, json.RawMessage(sj))
					}
				}
			}
		}
	}
}

func (c *collector) addExtra(k string, n int) {
	c.mu.Lock()
	c.Extra[k] += n
	c.mu.Unlock()
}

func (c *collector) setMax(k string, n int) {
	c.mu.Lock()
	if n > c.Extra[k] {
		c.Extra[k] = n
	}
	c.mu.Unlock()
}

func (c *collector) assume(s string) {
	c.mu.Lock()
	defer c.mu.Unlock()
	for _, a := range c.Assumptions {
		if a == s {
			return
		}
	}
	c.Assumptions = append(c.Assumptions, s)
}

type replayFile struct {
	Property string          `json:"property"`
	Kind     string          `json:"kind,omitempty"`
	Message  string          `json:"message"`
	Case     json.RawMessage `json:"case"`
}

// failCase writes the replay file for a failing case and returns its path.
func (c *collector) failCase(kind string, caseJSON []byte, msg string) string {
	c.mu.Lock()
	defer c.mu.Unlock()
	c.Violations++
	dir := *flagReplay
	if dir == "" {
		return ""
	}
	dir = filepath.Join(dir, c.Property)
	os.MkdirAll(dir, 0o755)
	name := fmt.Sprintf("fail-%s.json", *flagShard)
	if strings.HasPrefix(kind, "regress_") {
		name = fmt.Sprintf("fail-%s-%s.json", kindSlug(kind), *flagShard)
	}
	p := filepath.Join(dir, name)
	rf := replayFile{Property: c.Property, Kind: kind, Message: msg, Case: caseJSON}
	b, _ := json.MarshalIndent(rf, "", " ")
	os.WriteFile(p, b, 0o644)
	found := false
	for _, f := range c.ReplayFiles {
		if f == p {
			found = true
		}
	}
	if !found {
		c.ReplayFiles = append(c.ReplayFiles, p)
	}
	return p
}

func kindSlug(k string) string {
	if k == "" {
		return "case"
	}
	var sb strings.Builder
	for _, r := range k {
		if (r >= 'a' && r <= 'z') || (r >= 'A' && r <= 'Z') || (r >= '0' && r <= '9') {
			sb.WriteRune(r)
		} else {
			sb.WriteByte('_')
		}
	}
	return sb.String()
}

func (c *collector) flush() {
	c.mu.Lock()
	defer c.mu.Unlock()
	c.NTList = c.NTList[:0]
	for h := range c.NTHashes {
		c.NTList = append(c.NTList, h)
	}
	sort.Slice(c.NTList, func(i, j int) bool { return c.NTList[i] < c.NTList[j] })
}

func flushAll() {
	if *flagOut == "" {
		return
	}
	collectorsMu.Lock()
	defer collectorsMu.Unlock()
	out := map[string]*collector{}
	for k, c := range collectors {
		c.flush()
		out[k] = c
	}
	b, _ := json.Marshal(out)
	tmp := *flagOut + ".tmp"
	os.WriteFile(tmp, b, 0o644)
	os.Rename(tmp, *flagOut)
}

func TestMain(m *testing.M) {
	flag.Parse()
	loadKnown()
	code := m.Run()
	flushAll()
	os.Exit(code)
}

// ---------------------------------------------------------------- known findings

type knownEntry struct {
	Property  string `json:"property"`
	Kind      string `json:"kind"` // "finding" | "fixed"
	Signature string `json:"signature"`
	What      string `json:"what"`
	Commit    string `json:"commit,omitempty"`
}

var knownFindings []knownEntry

// known_findings.txt: one entry per line,
//
//	fixed: property=<id> <commit> <what failed>
//	finding: property=<id> signature=<signature> <what fails>
//
// "fixed" entries suppress nothing; "finding" entries make the check print KNOWN-FINDING and
// exclude exactly the cases failing with that signature.
func loadKnown() {
	if *flagKnown == "" {
		return
	}
	b, err := os.ReadFile(*flagKnown)
	if err != nil {
		return
	}
	for _, line := range strings.Split(string(b), "\n") {
		line = strings.TrimSpace(line)
		if !strings.HasPrefix(line, "finding:") {
			continue
		}
		f := strings.Fields(strings.TrimPrefix(line, "finding:"))
		e := knownEntry{Kind: "finding"}
		var rest []string
		for _, w := range f {
			switch {
			case strings.HasPrefix(w, "property=") && e.Property == "":
				e.Property = strings.TrimPrefix(w, "property=")
			case strings.HasPrefix(w, "signature=") && e.Signature == "":
				e.Signature = strings.TrimPrefix(w, "signature=")
			default:
				rest = append(rest, w)
			}
		}
		e.What = strings.Join(rest, " ")
		if e.Property != "" && e.Signature != "" {
			knownFindings = append(knownFindings, e)
		}
	}
}

// isKnown reports whether a failure with this signature is a listed (unfixed) finding.
func isKnown(prop, signature string) (knownEntry, bool) {
	for _, e := range knownFindings {
		if e.Kind == "finding" && e.Property == prop && e.Signature == signature {
			return e, true
		}
	}
	return knownEntry{}, false
}

// report handles the outcome of one evaluated case inside a rapid property.
// signature identifies the failing shape ("" = unclassified).
func (c *collector) report(t interface {
	Fatalf(string, ...interface{})
	Logf(string, ...interface{})
}, caseJSON []byte, v verdict, signature string, err error) {
	if err != nil && strings.HasPrefix(err.Error(), "harness:") {
		// trouble of the rig itself (no free port, cannot bind an exporter address, ...): the case is neither
		// evidence nor a violation; tools/check.py turns a run with such cases into "inconclusive" (exit 2)
		c.addExtra("harness_errors", 1)
		t.Logf("HARNESS-ERROR property=%s %v", c.Property, err)
		// rapid shows a property's log only when it fails: the line is also printed at once
		fmt.Printf("HARNESS-ERROR property=%s %v\n", c.Property, err)
		return
	}
	c.record(caseJSON, v)
	if err == nil {
		return
	}
	if e, ok := isKnown(c.Property, signature); ok {
		c.mu.Lock()
		c.Known[e.Signature+" :: "+e.What]++
		c.mu.Unlock()
		return
	}
	p := c.failCase(signature, caseJSON, err.Error())
	t.Fatalf("property %s violated: %v (replay %s)", c.Property, err, p)
}

// ---------------------------------------------------------------- replay

var replayers = map[string]func(raw json.RawMessage) error{}

func registerReplay(prop string, f func(raw json.RawMessage) error) { replayers[prop] = f }

// Cases of a property's end-to-end stage have another shape than its main cases; they are recognised by a
// top-level key of the case object.
type extraReplayer struct {
	key string
	f   func(raw json.RawMessage) error
}

var extraReplayers = map[string][]extraReplayer{}

func registerReplayExtra(prop, key string, f func(raw json.RawMessage) error) {
	extraReplayers[prop] = append(extraReplayers[prop], extraReplayer{key, f})
}

func pickReplayer(prop string, raw json.RawMessage) func(raw json.RawMessage) error {
	var top map[string]json.RawMessage
	if json.Unmarshal(raw, &top) == nil {
		for _, e := range extraReplayers[prop] {
			if _, ok := top[e.key]; ok {
				return e.f
			}
		}
	}
	return replayers[prop]
}

// TestReplay re-runs one saved case through the property's oracle, without rapid.
func TestReplay(t *testing.T) {
	if *flagCase == "" {
		t.Skip("no -verif.case")
	}
	b, err := os.ReadFile(*flagCase)
	if err != nil {
		t.Fatalf("cannot read replay file: %v", err)
	}
	var rf replayFile
	if err := json.Unmarshal(b, &rf); err != nil {
		t.Fatalf("bad replay file: %v", err)
	}
	f := pickReplayer(rf.Property, rf.Case)
	if f == nil {
		t.Fatalf("no replayer for property %q", rf.Property)
	}
	if err := f(rf.Case); err != nil {
		fmt.Printf("REPLAY-FAIL property=%s %v\n", rf.Property, err)
		t.Fatalf("replay of %s fails: %v", *flagCase, err)
	}
	fmt.Printf("REPLAY-PASS property=%s\n", rf.Property)
}

// regressDir runs every saved regression case of a property (harness/props/testdata/regress/<prop>/*.json).
func runRegress(t *testing.T, prop string) int {
	files, _ := filepath.Glob(filepath.Join("testdata", "regress", prop, "*.json"))
	if rd := os.Getenv("VERIF_REGRESS_DIR"); rd != "" {
		files, _ = filepath.Glob(filepath.Join(rd, prop, "*.json"))
	}
	sort.Strings(files)
	col := getCollector(prop, "")
	n := 0
	for _, fn := range files {
		b, err := os.ReadFile(fn)
		if err != nil {
			continue
		}
		var rf replayFile
		if json.Unmarshal(b, &rf) != nil {
			continue
		}
		f := pickReplayer(prop, rf.Case)
		if f == nil {
			continue
		}
		n++
		if err := f(rf.Case); err != nil {
			p := col.failCase("regress_"+filepath.Base(fn), rf.Case, err.Error())
			t.Errorf("regression case %s fails: %v (replay %s)", fn, err, p)
		}
	}
	col.addExtra("regression_cases", n)
	if t.Failed() {
		t.FailNow()
	}
	return n
}

// concurrently runs f in n goroutines at once and returns the first error: decoders and encoders are used by
// hundreds of workers at a time, so package-level scratch state shows up as a mismatch in one of the twins.
func concurrently(n int, f func() error) error {
	errs := make(chan error, n)
	start := make(chan struct{})
	for i := 0; i < n; i++ {
		go func() {
			<-start
			var err error
			for k := 0; k < 4 && err == nil; k++ {
				err = f()
			}
			errs <- err
		}()
	}
	close(start)
	var first error
	for i := 0; i < n; i++ {
		if e := <-errs; e != nil && first == nil {
			first = e
		}
	}
	return first
}

// drawCase is a tiny helper so that generated cases appear in rapid's log on failure.
func drawCase[T any](t *rapid.T, gen func(*rapid.T) T) T {
	return rapid.Custom(gen).Draw(t, "case")
}
