package props

// C03 — IPFIX data records are decoded exactly as their templates describe.
// Round trip "construct, then decode" against the reference model of wire/.

import "testing"

const c03Rule = "case = exporter address + optional earlier announcement message + one well-formed IPFIX message " +
	"(1..3 templates: plain/options with scope fields, IANA and enterprise elements (incl. E bit with element id 0), natural, reduced and " +
	"variable-length encodings with 1- and 3-octet prefixes; 1..4 data sets x 1..20 records; RFC-conformant zero padding 0..7 octets; several template records per set); " +
	"oracle = header fields equal the wire and decoded records equal the reference interpretation field for field, in wire order; " +
	"non-trivial = at least one record under a template with >= 2 fields; distinct by hash of the case"

func TestC03(t *testing.T) {
	scenarioProperty(t, "C03", "ipfix", c03Rule, runScenarioDecode, 4, 20)
}

func init() { registerScenarioReplay("C03", runScenarioDecode) }
