package props

// Scale stage: the collector of a large deployment after a long time.
//
// The histories of C04 / C11 and the messages of C05 hold a handful of exporters and templates, because small cases
// find most things and shrink well. What they cannot find is anything that depends on a quantity having grown: the
// 257th announcement of an exporter, the 1025th template of a shard, the 4097th exporter, the 65537th exporter or
// address, a cache file of megabytes. None of the listed properties has a size limit in its statement, so the same
// oracles are applied here to populations of tens of thousands of exporters and more than a hundred thousand
// templates: a reference map from (exporter, id) to the last announced definition, data for every key decoded against
// the cache and compared with the octets sent, data for keys nobody announced refused, and (C11) the same after a save
// and a load, (C05) the published JSON naming the datagram's own exporter and addresses.

import (
	"encoding/binary"
	"encoding/json"
	"fmt"
	"net"
	"os"
	"path/filepath"
	"runtime"
	"sort"
	"strconv"
	"strings"
	"sync"
	"testing"
	"time"

	"github.com/EdgeCast/vflow/ipfix"
	netflow9 "github.com/EdgeCast/vflow/netflow/v9"
	"pgregory.net/rapid"
	"verif/harness/wire"
)

type scaleCase struct {
	Prop      string `json:"prop"`
	Proto     string `json:"proto"`
	Exporters int    `json:"exporters"`
	PerExp    int    `json:"per_exporter"`
	Stride    int    `json:"stride"`   // template ids of one exporter are 256, 256+stride, ...
	V6Every   int    `json:"v6_every"` // every n-th exporter has an IPv6 address (0: none)
	Regular   bool   `json:"regular"`  // exporter addresses follow a numbering plan (10.x.y.z counted up) instead of being scattered
	// Hot / Refresh: after the population the first Hot templates of exporter 0 are announced again, unchanged,
	// Refresh times each (periodic template refresh over weeks); then exporter 0 announces NewIDs further templates
	Hot     int `json:"hot,omitempty"`
	Refresh int `json:"refresh,omitempty"`
	NewIDs  int `json:"new_ids,omitempty"`
	// SaveLoad: the cache is saved and loaded before the verification pass (C11)
	SaveLoad bool `json:"save_load,omitempty"`
	// JSON: every verification message is encoded as the worker does and the text is checked (exporter, addresses);
	// Again: the first Again exporters are verified a second time after all others (C05: state that is recycled)
	JSON  bool   `json:"json,omitempty"`
	Again int    `json:"again,omitempty"`
	Salt  uint64 `json:"salt"`
}

const scaleRule = " | scale stage (one population per shard and run): 2..70 000 exporters (scattered or numbered addresses, every n-th IPv6) x 2..65 000 templates each (18 000..140 000 keys, every definition derived from its key so that no two exporters share one), " +
	"optionally 4..8 templates refreshed 300..1200 times each and 64 further ids announced afterwards; reference model = map (exporter, id) -> last definition; oracle = one data record for EVERY key decodes to the octets sent under the key's own definition, " +
	"data for ids an exporter never announced yields nothing, no announcement or decode panics or fails to return (processor-time watchdog)"

func splitmix(x uint64) uint64 {
	x += 0x9e3779b97f4a7c15
	x = (x ^ (x >> 30)) * 0xbf58476d1ce4e5b9
	x = (x ^ (x >> 27)) * 0x94d049bb133111eb
	return x ^ (x >> 31)
}

// scaleElems: elements of the live information model at their natural sizes (fixed-size unsigned and address
// types, ids below 128 so that both tables have them); scaleAddrElems are the IPv4 ones.
var (
	scaleElemsOnce             sync.Once
	scaleElems, scaleAddrElems []wire.Field
)

func scaleElements() {
	scaleElemsOnce.Do(func() {
		for _, e := range wire.Elements() {
			if e.PEN != 0 || e.ID == 0 || e.ID >= 128 {
				continue
			}
			switch e.Type {
			case wire.TUint8, wire.TUint16, wire.TUint32, wire.TUint64, wire.TIPv4, wire.TIPv6:
				f := wire.Field{ID: e.ID, Len: uint16(wire.NaturalSize(e.Type)), Type: e.Type}
				scaleElems = append(scaleElems, f)
				if e.Type == wire.TIPv4 {
					scaleAddrElems = append(scaleAddrElems, f)
				}
			}
		}
		sort.Slice(scaleElems, func(i, j int) bool { return scaleElems[i].ID < scaleElems[j].ID })
		sort.Slice(scaleAddrElems, func(i, j int) bool { return scaleAddrElems[i].ID < scaleAddrElems[j].ID })
	})
}

func (c *scaleCase) addr(e int) []byte {
	h := splitmix(c.Salt ^ uint64(e)*0x100000001b3)
	if c.V6Every > 0 && e%c.V6Every == c.V6Every-1 {
		a := make([]byte, 16)
		a[0], a[1] = 0x20, 0x01
		binary.BigEndian.PutUint64(a[2:], h)
		binary.BigEndian.PutUint32(a[12:], uint32(e)) // distinct by construction
		return a
	}
	if c.Regular {
		return []byte{10, byte(e >> 16), byte(e >> 8), byte(e)}
	}
	// scattered, distinct by construction: a bijection of the 32-bit exporter number (odd multiplier, xor)
	x := uint32(e)*2654435761 ^ uint32(c.Salt)
	return []byte{byte(x >> 24), byte(x >> 16), byte(x >> 8), byte(x)}
}

func (c *scaleCase) id(k int) uint16 { return uint16(256 + k*c.Stride) }

// tpl derives the definition of key (e, k): 2..5 fields, always starting with an address field.
func (c *scaleCase) tpl(e, k int, gen int) wire.Template {
	h := splitmix(c.Salt ^ uint64(e)<<20 ^ uint64(k) ^ uint64(gen)<<50)
	tp := wire.Template{ID: c.id(k)}
	tp.Fields = append(tp.Fields, scaleAddrElems[int(h%uint64(len(scaleAddrElems)))])
	h /= 16
	for i, n := 0, 1+int(h%4); i < n; i++ {
		h = splitmix(h)
		tp.Fields = append(tp.Fields, scaleElems[int(h%uint64(len(scaleElems)))])
	}
	return tp
}

func (c *scaleCase) record(tp *wire.Template, e, k int) wire.Record {
	var r wire.Record
	h := splitmix(uint64(e)<<24 ^ uint64(k) ^ 0xabcdef)
	for i, f := range tp.Fields {
		v := make([]byte, f.Len)
		for j := range v {
			h = splitmix(h + uint64(i))
			v[j] = byte(h)
		}
		if i == 0 {
			// the first field is an address that is unique to the key
			binary.BigEndian.PutUint32(v, uint32(e)*131+uint32(k)*7919+0x0b000000)
		}
		r.Vals = append(r.Vals, v)
	}
	return r
}

type scaleKey struct{ e, k int }

func runScale(c *scaleCase) (v verdict, sig string, err error) {
	startWatchdog()
	scaleElements()
	if len(scaleAddrElems) < 3 || len(scaleElems) < 20 {
		return v, "", fmt.Errorf("harness: the information model has too few fixed-size elements (%d, %d)", len(scaleAddrElems), len(scaleElems))
	}
	if c.Exporters < 1 || c.PerExp < 1 || c.Stride < 1 || 256+(c.PerExp+c.NewIDs+1)*c.Stride > 65535 || (c.Proto != "ipfix" && c.Proto != "nf9") {
		return v, "", fmt.Errorf("bad case: scale shape")
	}
	cache := newFlowCache(c.Proto)
	caseJSON := mustJSON(c)
	watched := func(addr []byte, b []byte) (flowResult, error) {
		var ms runtime.MemStats
		runtime.ReadMemStats(&ms)
		in := &inflightT{prop: c.Prop, data: caseJSON, start: time.Now(), heap0: ms.HeapAlloc, cpu0: processCPU()}
		inflight.Store(in)
		res, perr := cache.decodeFlow(wire.ExactIP(addr), b)
		inflight.Store(nil)
		return res, perr
	}
	gens := map[scaleKey]int{} // keys whose definition is not generation 0
	seq := uint32(0)
	announce := func(e int, tpls []wire.Template) error {
		seq++
		m := wire.Msg{Proto: c.Proto, Seq: seq, Time: 1700000000, Domain: 1, Count: uint16(len(tpls)), Sets: []wire.Set{{Kind: "tpl", Tpls: tpls}}}
		res, perr := watched(c.addr(e), m.Bytes())
		if perr != nil {
			return fmt.Errorf("announcement %d (exporter %d of %d, %d template records from id %d): %v", seq, e, c.Exporters, len(tpls), tpls[0].ID, perr)
		}
		if res.Nil || res.Err != nil {
			return fmt.Errorf("announcement %d (exporter %d of %d, %d template records from id %d) is refused: %v", seq, e, c.Exporters, len(tpls), tpls[0].ID, res.Err)
		}
		return nil
	}
	// population
	for e := 0; e < c.Exporters; e++ {
		for base := 0; base < c.PerExp; base += 60 {
			var tpls []wire.Template
			for k := base; k < base+60 && k < c.PerExp; k++ {
				tpls = append(tpls, c.tpl(e, k, 0))
			}
			if err = announce(e, tpls); err != nil {
				return v, "scale-announce", err
			}
		}
	}
	// weeks of periodic refreshes of a few templates, then new ids of that exporter
	for r := 0; r < c.Refresh; r++ {
		for k := 0; k < c.Hot && k < c.PerExp; k++ {
			if err = announce(0, []wire.Template{c.tpl(0, k, 0)}); err != nil {
				return v, "scale-refresh", err
			}
		}
	}
	per0 := c.PerExp
	if c.NewIDs > 0 {
		var tpls []wire.Template
		for k := c.PerExp; k < c.PerExp+c.NewIDs; k++ {
			tpls = append(tpls, c.tpl(0, k, 0))
		}
		if err = announce(0, tpls); err != nil {
			return v, "scale-newids", err
		}
		per0 += c.NewIDs
	}
	_ = gens
	if c.SaveLoad {
		file := filepath.Join(c11WorkDir(), fmt.Sprintf("scale-%s-%d.cache", c.Proto, c.Salt))
		defer os.Remove(file)
		if e := cache.dump(file); e != nil {
			return v, "scale-dump", fmt.Errorf("saving a cache of %d templates fails: %v", c.Exporters*c.PerExp, e)
		}
		st, _ := os.Stat(file)
		loaded, perr := safeLoad(c.Proto, file)
		if perr != nil {
			return v, "scale-load", fmt.Errorf("loading the saved cache of %d templates: %v", c.Exporters*c.PerExp, perr)
		}
		cache = loaded
		if st != nil {
			v.label(st.Size() > 8<<20, "cache-file>8MiB")
		}
	}
	// verification: every key
	type jmsg struct {
		AgentID  string
		DataSets [][]struct {
			I uint16
			V interface{}
		}
	}
	verify := func(e, k int, pass string) error {
		tp := c.tpl(e, k, 0)
		rec := c.record(&tp, e, k)
		seq++
		dm := wire.Msg{Proto: c.Proto, Seq: seq, Time: 1700000001, Domain: 1, Count: 1, Sets: []wire.Set{{Kind: "data", Tpl: &tp, Recs: []wire.Record{rec}}}}
		a := c.addr(e)
		res, perr := watched(a, dm.Bytes())
		where := fmt.Sprintf("%s: exporter %d of %d (%s), template %d (%d of its %d)", pass, e, c.Exporters, net.IP(a), tp.ID, k, c.PerExp)
		if perr != nil {
			return fmt.Errorf("%s: %v", where, perr)
		}
		if res.Nil || res.Err != nil {
			return fmt.Errorf("%s: data for a template the exporter announced is not decoded: %v", where, res.Err)
		}
		if d := wire.CompareRecords(res.Recs, []wire.ExpRecord{wire.ExpectRecord(&tp, &rec)}); d != "" {
			return fmt.Errorf("%s: %s", where, d)
		}
		if want := net.IP(a).String(); res.AgentID != want {
			return fmt.Errorf("%s: the decoded message names exporter %s", where, res.AgentID)
		}
		if c.JSON {
			out, merr, mperr := res.marshal()
			if mperr != nil || merr != nil {
				return fmt.Errorf("%s: encoding fails: %v %v", where, merr, mperr)
			}
			var jm jmsg
			if e := json.Unmarshal(out, &jm); e != nil {
				return fmt.Errorf("%s: published text is not valid JSON: %v", where, e)
			}
			if jm.AgentID != net.IP(a).String() {
				return fmt.Errorf("%s: published under AgentID %q", where, jm.AgentID)
			}
			if len(jm.DataSets) != 1 || len(jm.DataSets[0]) != len(tp.Fields) {
				return fmt.Errorf("%s: published with %d data sets", where, len(jm.DataSets))
			}
			for i, f := range tp.Fields {
				if f.Type == wire.TIPv4 || f.Type == wire.TIPv6 {
					if s, _ := jm.DataSets[0][i].V.(string); s != net.IP(rec.Vals[i]).String() {
						return fmt.Errorf("%s: field %d (element %d) carries address %s, published as %v", where, i, f.ID, net.IP(rec.Vals[i]), jm.DataSets[0][i].V)
					}
				}
			}
		}
		return nil
	}
	nkeys := 0
	for e := 0; e < c.Exporters; e++ {
		n := c.PerExp
		if e == 0 {
			n = per0
		}
		for k := 0; k < n; k++ {
			if err = verify(e, k, "verification"); err != nil {
				return v, "scale-verify", err
			}
			nkeys++
		}
		// an id this exporter never announced (others did not either: ids end at PerExp+NewIDs)
		if e%7 == 0 {
			utp := c.tpl(e, per0+1, 0)
			urec := c.record(&utp, e, per0+1)
			seq++
			um := wire.Msg{Proto: c.Proto, Seq: seq, Time: 1700000001, Domain: 1, Count: 1, Sets: []wire.Set{{Kind: "data", Tpl: &utp, Recs: []wire.Record{urec}}}}
			res, perr := watched(c.addr(e), um.Bytes())
			if perr != nil {
				return v, "scale-unknown", fmt.Errorf("exporter %d of %d, data for template %d nobody announced: %v", e, c.Exporters, utp.ID, perr)
			}
			if len(res.Recs) != 0 {
				return v, "scale-unknown", fmt.Errorf("exporter %d of %d (%s): data for template %d, which no exporter ever announced, yields %d records", e, c.Exporters, net.IP(c.addr(e)), utp.ID, len(res.Recs))
			}
		}
	}
	for e := 0; e < c.Again && e < c.Exporters; e++ {
		if err = verify(e, 0, "second pass over the earliest exporters"); err != nil {
			return v, "scale-again", err
		}
	}
	v.NT = nkeys >= 10000
	v.label(true, "scale-"+c.Proto)
	v.label(c.Exporters > 65536, "exporters>65536")
	v.label(c.Exporters > 4096, "exporters>4096")
	v.label(c.PerExp >= 4096, "templates-per-exporter>=4096")
	v.label(nkeys > 100000, "keys>100000")
	v.label(c.Refresh > 0, "refreshed-hundreds-of-times")
	v.label(c.SaveLoad, "saved-and-loaded")
	v.label(c.JSON, "published-text-checked")
	v.label(c.V6Every > 0, "ipv6-exporters")
	v.label(c.Regular, "numbered-addresses")
	return v, "", nil
}

func genScale(t *rapid.T, prop string) scaleCase {
	c := scaleCase{Prop: prop, Proto: rapid.SampledFrom([]string{"ipfix", "nf9"}).Draw(t, "proto"), Salt: rapid.Uint64().Draw(t, "salt")}
	shape := rapid.SampledFrom([][3]int{{2, 65000, 1}, {70000, 2, 1}, {70000, 2, 32}, {300, 60, 1}, {5000, 24, 1}, {40, 3000, 1}, {66000, 2, 7}}).Draw(t, "shape")
	c.Exporters, c.PerExp, c.Stride = shape[0], shape[1], shape[2]
	c.V6Every = rapid.SampledFrom([]int{0, 0, 5, 2}).Draw(t, "v6every")
	c.Regular = rapid.IntRange(0, 2).Draw(t, "regular") == 0
	if rapid.Bool().Draw(t, "withrefresh") {
		c.Hot = rapid.SampledFrom([]int{4, 8}).Draw(t, "hot")
		c.Refresh = rapid.SampledFrom([]int{300, 600, 1200}).Draw(t, "refresh")
		c.NewIDs = 64
		if 256+(c.PerExp+c.NewIDs+1)*c.Stride > 65535 {
			c.NewIDs = 0
		}
	}
	switch prop {
	case "C11":
		c.SaveLoad = true
	case "C05":
		c.JSON = true
		c.Again = rapid.SampledFrom([]int{200, 3000}).Draw(t, "again")
	}
	return c
}

func scaleCases(def int) int {
	if s := os.Getenv("VERIF_SCALE_CASES"); s != "" {
		if n, err := strconv.Atoi(s); err == nil && n >= 0 {
			return n
		}
	}
	return def
}

func scaleStage(t *testing.T, prop string) {
	installEnterprise()
	col := getCollector(prop, "")
	if !strings.Contains(col.Rule, "scale stage") {
		col.Rule += scaleRule
	}
	seed := e2eSeed()
	gen := rapid.Custom(func(t *rapid.T) scaleCase { return genScale(t, prop) })
	for i, n := 0, scaleCases(1); i < n; i++ {
		c := gen.Example(seed*100 + 40 + i)
		v, sig, err := runScale(&c)
		col.report(t, mustJSON(c), v, sig, err)
		col.addExtra("scale_cases", 1)
		if err != nil {
			return
		}
		runtime.GC()
	}
}

func TestC04Scale(t *testing.T) { scaleStage(t, "C04") }
func TestC11Scale(t *testing.T) { scaleStage(t, "C11") }
func TestC05Scale(t *testing.T) { scaleStage(t, "C05") }

func init() {
	for _, prop := range []string{"C04", "C11", "C05"} {
		registerReplayExtra(prop, "per_exporter", func(raw json.RawMessage) error {
			installEnterprise()
			var c scaleCase
			if err := json.Unmarshal(raw, &c); err != nil {
				return err
			}
			_, _, err := runScale(&c)
			return err
		})
	}
}

// ---------------------------------------------------------------- soak: one element used millions of times

// A collector decodes the same few elements (octetDeltaCount, protocolIdentifier, the addresses) billions of times.
// The information model is a table that is only read (C20 compares it entry for entry with the registry), but "read"
// is the implementation's business: whatever bookkeeping a lookup does must not change what the 2^24-th lookup of an
// element returns. The soak decodes one element's records until it has been used Uses times and requires the first,
// every 64th and the last message — and a probe of other elements — to decode exactly like the first one.
type soakCase struct {
	Proto string `json:"proto"`
	Elem  uint16 `json:"soak_element"`
	Uses  int    `json:"uses"`
}

const soakRule = " | soak stage: one fixed-size element of the live model (drawn per run) is decoded in maximum-size messages until it has been looked up 2^24 + 2^12 times in this process (thorough: also 2^25 + 2^12); oracle = the first, every 64th and the last message decode to the octets sent under the element's registry type, and so does a probe record of ten other elements before and after"

func runSoak(c *soakCase) (v verdict, sig string, err error) {
	startWatchdog()
	scaleElements()
	var f *wire.Field
	for i := range scaleElems {
		if scaleElems[i].ID == c.Elem {
			f = &scaleElems[i]
		}
	}
	if f == nil || c.Uses < 1 || c.Uses > 1<<27 || (c.Proto != "ipfix" && c.Proto != "nf9") {
		return v, "", fmt.Errorf("bad case: soak")
	}
	cache := newFlowCache(c.Proto)
	addr := wire.ExactIP([]byte{10, 20, 30, 40})
	caseJSON := mustJSON(c)
	watched := func(b []byte, full bool) (res flowResult, perr error) {
		var ms runtime.MemStats
		runtime.ReadMemStats(&ms)
		inflight.Store(&inflightT{prop: "C20", data: caseJSON, start: time.Now(), heap0: ms.HeapAlloc, cpu0: processCPU()})
		defer inflight.Store(nil)
		if full {
			return cache.decodeFlow(addr, b)
		}
		defer func() {
			if r := recover(); r != nil {
				perr = fmt.Errorf("decoder panicked: %v", r)
			}
		}()
		if c.Proto == "ipfix" {
			m, e := ipfix.NewDecoder(addr, b).Decode(cache.ix)
			res.Nil, res.Err = m == nil, e
		} else {
			m, e := netflow9.NewDecoder(addr, b).Decode(cache.n9)
			res.Nil, res.Err = m == nil, e
		}
		return
	}
	tp := wire.Template{ID: 300, Fields: []wire.Field{*f}}
	probeTp := wire.Template{ID: 301}
	for i := 0; len(probeTp.Fields) < 10 && i < len(scaleElems); i++ {
		if scaleElems[i].ID != c.Elem {
			probeTp.Fields = append(probeTp.Fields, scaleElems[i])
		}
	}
	ann := wire.Msg{Proto: c.Proto, Seq: 1, Time: 1700000000, Domain: 1, Count: 2, Sets: []wire.Set{{Kind: "tpl", Tpls: []wire.Template{tp, probeTp}}}}
	if res, perr := watched(ann.Bytes(), true); perr != nil || res.Nil || res.Err != nil {
		return v, "soak-announce", fmt.Errorf("announcement refused: %v %v", res.Err, perr)
	}
	nrec := (65535 - 64) / int(f.Len)
	if nrec > 60000 {
		nrec = 60000
	}
	var recs []wire.Record
	var want []wire.ExpRecord
	for r := 0; r < nrec; r++ {
		val := make([]byte, f.Len)
		h := splitmix(uint64(r) + 77)
		for j := range val {
			val[j] = byte(h >> (8 * uint(j%8)))
		}
		recs = append(recs, wire.Record{Vals: []wire.Hex{val}})
		want = append(want, wire.ExpectRecord(&tp, &recs[r]))
	}
	dm := wire.Msg{Proto: c.Proto, Seq: 2, Time: 1700000001, Domain: 1, Count: uint16(nrec), Sets: []wire.Set{{Kind: "data", Tpl: &tp, Recs: recs}}}
	data := dm.Bytes()
	var prec wire.Record
	for i, pf := range probeTp.Fields {
		val := make([]byte, pf.Len)
		for j := range val {
			val[j] = byte(0x80 + 16*i + j)
		}
		prec.Vals = append(prec.Vals, val)
	}
	pm := wire.Msg{Proto: c.Proto, Seq: 3, Time: 1700000001, Domain: 1, Count: 1, Sets: []wire.Set{{Kind: "data", Tpl: &probeTp, Recs: []wire.Record{prec}}}}
	probe := func(when string) error {
		res, perr := watched(pm.Bytes(), true)
		if perr != nil || res.Nil || res.Err != nil {
			return fmt.Errorf("probe %s: not decoded: %v %v", when, res.Err, perr)
		}
		if d := wire.CompareRecords(res.Recs, []wire.ExpRecord{wire.ExpectRecord(&probeTp, &prec)}); d != "" {
			return fmt.Errorf("probe of ten other elements %s: %s", when, d)
		}
		return nil
	}
	if err = probe("before the soak"); err != nil {
		return v, "soak-probe", err
	}
	msgs := (c.Uses + nrec - 1) / nrec
	for i := 0; i <= msgs; i++ {
		full := i == 0 || i%64 == 0 || i >= msgs-1
		res, perr := watched(data, full)
		if perr != nil || res.Nil || res.Err != nil {
			return v, "soak-decode", fmt.Errorf("element %d (%s, %d octets): message %d of the soak (records %d..) is not decoded: %v %v", f.ID, wire.TypeName(f.Type), f.Len, i, i*nrec, res.Err, perr)
		}
		if full {
			if d := wire.CompareRecords(res.Recs, want); d != "" {
				return v, "soak-decode", fmt.Errorf("element %d (%s, %d octets) after %d uses in this process (message %d of the soak): %s", f.ID, wire.TypeName(f.Type), f.Len, i*nrec, i, d)
			}
		}
	}
	if err = probe("after the soak"); err != nil {
		return v, "soak-probe", err
	}
	v.NT = true
	v.label(true, "soak-"+c.Proto)
	v.label(c.Uses > 1<<24, "element-used>2^24-times")
	v.label(c.Uses > 1<<25, "element-used>2^25-times")
	return v, "", nil
}

func TestC20Soak(t *testing.T) {
	installEnterprise()
	scaleElements()
	col := getCollector("C20", "")
	if !strings.Contains(col.Rule, "soak stage") {
		col.Rule += soakRule
	}
	seed := e2eSeed()
	uses := []int{1<<24 + 1<<12}
	if os.Getenv("VERIF_TIER") == "thorough" {
		uses = []int{1<<24 + 1<<12, 1<<25 + 1<<12, 1<<24 + 1<<12, 1<<24 + 1<<12}
	}
	if scaleCases(1) == 0 {
		t.Skip("VERIF_SCALE_CASES=0")
	}
	for i, u := range uses {
		h := splitmix(uint64(seed)*31 + uint64(i))
		c := soakCase{Proto: []string{"ipfix", "nf9"}[h%2], Elem: scaleElems[int((h>>8)%uint64(len(scaleElems)))].ID, Uses: u}
		v, sig, err := runSoak(&c)
		col.report(t, mustJSON(c), v, sig, err)
		col.addExtra("soak_cases", 1)
		if err != nil {
			return
		}
		runtime.GC()
	}
}

func init() {
	registerReplayExtra("C20", "soak_element", func(raw json.RawMessage) error {
		installEnterprise()
		var c soakCase
		if err := json.Unmarshal(raw, &c); err != nil {
			return err
		}
		_, _, err := runSoak(&c)
		return err
	})
}
