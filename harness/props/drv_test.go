package props

// Client of the package-main driver (/repo/vflow/verif_driver_test.go, build tag "verif"):
// JSON lines over a pipe. A panic in a worker or mirror goroutine kills only the driver process;
// the client reports that as died=true together with the tail of the driver's output.

import (
	"bufio"
	"bytes"
	"encoding/json"
	"fmt"
	"io"
	"os"
	"os/exec"
	"path/filepath"
	"strings"
	"sync"
	"time"
)

type drvDatagram struct {
	Addr string `json:"addr"`
	Port int    `json:"port"`
	Data string `json:"data"`
	// pipeline the datagram goes to when it is not the request's own
	Proto string `json:"proto,omitempty"`
	// the injector waits this long before handing the datagram over
	PauseMS int `json:"pause_ms,omitempty"`
}

type drvRequest struct {
	Op            string            `json:"op"`
	Proto         string            `json:"proto,omitempty"`
	Workers       int               `json:"workers,omitempty"`
	UDPSize       int               `json:"udpsize,omitempty"`
	OtherUDPSize  int               `json:"other_udpsize,omitempty"`
	Churn         int               `json:"churn,omitempty"`
	LazyDrain     bool              `json:"lazy_drain,omitempty"`
	Verbose       bool              `json:"verbose,omitempty"`
	Filter        []uint32          `json:"filter,omitempty"`
	ResetCache    bool              `json:"reset_cache,omitempty"`
	Mirror        bool              `json:"mirror,omitempty"`
	MirrorDst     string            `json:"mirror_dst,omitempty"`
	MirrorPort    int               `json:"mirror_port,omitempty"`
	MirrorWorkers int               `json:"mirror_workers,omitempty"`
	MirrorLive    bool              `json:"mirror_live,omitempty"`
	Phases        [][]drvDatagram   `json:"phases,omitempty"`
	Args          []string          `json:"args,omitempty"`
	Env           map[string]string `json:"env,omitempty"`
	Config        *string           `json:"config,omitempty"`
	ConfigVia     string            `json:"config_via,omitempty"`
}

type drvPhase struct {
	Published    []string `json:"published"`
	DecodedDelta uint64   `json:"decoded_delta"`
	Mirrored     int      `json:"mirrored"`
	// payloads published by the other pipelines that had traffic in the phase
	Others map[string][]string `json:"others,omitempty"`
}

type drvResponse struct {
	Error   string                 `json:"error"`
	Phases  []drvPhase             `json:"phases"`
	Options map[string]interface{} `json:"options"`
	Mirror  string                 `json:"mirror"`
}

type drvClient struct {
	cmd   *exec.Cmd
	in    io.WriteCloser
	out   *bufio.Reader
	log   bytes.Buffer // everything the driver printed that is not a response
	logMu sync.Mutex
	calls int
	race  bool
	hung  bool // the last call was ended by the watchdog
}

func driverPath(race bool) string {
	if race {
		return os.Getenv("VERIF_DRV_RACE")
	}
	return os.Getenv("VERIF_DRV")
}

func startDriver(race bool) (*drvClient, error) {
	p := driverPath(race)
	if p == "" {
		return nil, fmt.Errorf("harness: driver binary not configured (VERIF_DRV / VERIF_DRV_RACE)")
	}
	d := &drvClient{race: race}
	d.cmd = exec.Command(p, "-test.run", "^TestVerifDriver$", "-test.timeout", "0")
	d.cmd.Env = append(os.Environ(), "VERIF_DRIVER=1", "GORACE=halt_on_error=1")
	var err error
	if d.in, err = d.cmd.StdinPipe(); err != nil {
		return nil, err
	}
	so, err := d.cmd.StdoutPipe()
	if err != nil {
		return nil, err
	}
	se, err := d.cmd.StderrPipe()
	if err != nil {
		return nil, err
	}
	d.out = bufio.NewReaderSize(so, 1<<20)
	go func() {
		buf := make([]byte, 65536)
		for {
			n, err := se.Read(buf)
			if n > 0 {
				d.logMu.Lock()
				d.log.Write(buf[:n])
				if d.log.Len() > 1<<20 {
					b := d.log.Bytes()
					d.log.Reset()
					d.log.Write(b[len(b)-(1<<19):])
				}
				d.logMu.Unlock()
			}
			if err != nil {
				return
			}
		}
	}()
	if err := d.cmd.Start(); err != nil {
		return nil, err
	}
	return d, nil
}

func (d *drvClient) diag() string {
	time.Sleep(50 * time.Millisecond)
	d.logMu.Lock()
	defer d.logMu.Unlock()
	s := d.log.String()
	if len(s) > 6000 {
		// keep the head of the runtime's report (panic / race header) and the tail
		i := strings.Index(s, "panic:")
		if j := strings.Index(s, "WARNING: DATA RACE"); j >= 0 && (i < 0 || j < i) {
			i = j
		}
		if j := strings.Index(s, "fatal error:"); j >= 0 && (i < 0 || j < i) {
			i = j
		}
		if i >= 0 {
			s = s[i:]
		}
		if len(s) > 6000 {
			s = s[:6000]
		}
	}
	return s
}

// call sends one request. died=true: the driver process terminated (panic, fatal error, race report).
func (d *drvClient) call(req *drvRequest) (resp drvResponse, died bool, diag string) {
	d.calls++
	// watchdog: a request whose workers never come back (a worker blocked for good) would hang the check; after
	// three minutes the driver is killed and the call reported as died with that explanation
	d.hung = false
	done := make(chan struct{})
	defer close(done)
	go func() {
		select {
		case <-done:
		case <-time.After(180 * time.Second):
			// a worker blocked for good leaves a process whose threads all sleep; a process that is merely starved of
			// processor time on a busy machine has runnable threads: that one is given more time (15 minutes at most)
			for waited := 180 * time.Second; waited < 15*time.Minute && procRunnable(d.cmd.Process.Pid); waited += 30 * time.Second {
				select {
				case <-done:
					return
				case <-time.After(30 * time.Second):
				}
			}
			select {
			case <-done:
				return
			default:
			}
			d.hung = true
			d.logMu.Lock()
			d.log.WriteString("\nHARNESS WATCHDOG: the driver did not answer the request within 180 s and all its threads sleep (workers of the phase never finished); killed\n")
			d.logMu.Unlock()
			d.cmd.Process.Kill()
		}
	}()
	b, _ := json.Marshal(req)
	if _, err := d.in.Write(append(b, '\n')); err != nil {
		d.cmd.Wait()
		return resp, true, d.diag()
	}
	for {
		line, err := d.out.ReadString('\n')
		if strings.HasPrefix(line, "VERIFRESP ") {
			if e := json.Unmarshal([]byte(strings.TrimPrefix(line, "VERIFRESP ")), &resp); e != nil {
				resp.Error = "harness: bad response: " + e.Error()
			}
			return resp, false, ""
		}
		if line != "" {
			d.logMu.Lock()
			d.log.WriteString(line)
			d.logMu.Unlock()
		}
		if err != nil {
			d.cmd.Wait()
			return resp, true, d.diag()
		}
	}
}

// procRunnable samples the states of the process's threads for two seconds: true when some thread was running,
// runnable or in uninterruptible sleep in any sample.
func procRunnable(pid int) bool {
	for i := 0; i < 20; i++ {
		tasks, _ := filepath.Glob(fmt.Sprintf("/proc/%d/task/*/stat", pid))
		for _, f := range tasks {
			b, err := os.ReadFile(f)
			if err != nil {
				continue
			}
			// pid (comm) state ...: the state letter follows the last ')'
			if k := bytes.LastIndexByte(b, ')'); k >= 0 && k+2 < len(b) && (b[k+2] == 'R' || b[k+2] == 'D') {
				return true
			}
		}
		time.Sleep(100 * time.Millisecond)
	}
	return false
}

func (d *drvClient) stop() {
	if d == nil || d.cmd == nil {
		return
	}
	d.in.Write([]byte("{\"op\":\"quit\"}\n"))
	d.in.Close()
	done := make(chan struct{})
	go func() { d.cmd.Wait(); close(done) }()
	select {
	case <-done:
	case <-time.After(3 * time.Second):
		d.cmd.Process.Kill()
		<-done
	}
}

// drvPool hands out one long-lived driver per (race) flavour and restarts it when it died or is worn out.
type drvPool struct {
	mu sync.Mutex
	d  map[bool]*drvClient
}

var drivers = &drvPool{d: map[bool]*drvClient{}}

func (p *drvPool) get(race bool, maxCalls int) (*drvClient, error) {
	p.mu.Lock()
	defer p.mu.Unlock()
	d := p.d[race]
	if d != nil && maxCalls > 0 && d.calls >= maxCalls {
		d.stop()
		d = nil
	}
	if d == nil {
		var err error
		if d, err = startDriver(race); err != nil {
			return nil, err
		}
		p.d[race] = d
	}
	return d, nil
}

func (p *drvPool) drop(race bool) {
	p.mu.Lock()
	defer p.mu.Unlock()
	if d := p.d[race]; d != nil {
		d.stop()
		delete(p.d, race)
	}
}

func (p *drvPool) stopAll() {
	p.mu.Lock()
	defer p.mu.Unlock()
	for k, d := range p.d {
		d.stop()
		delete(p.d, k)
	}
}
