package props

// sFlow adapters and the reference comparison shared by C07, C18, C05, C01.

import (
	"bytes"
	"encoding/json"
	"fmt"
	"reflect"

	"github.com/EdgeCast/vflow/packet"
	"github.com/EdgeCast/vflow/sflow"
	"verif/harness/wire"
)

// decodeSFlow runs one datagram through the decoder exactly as the worker does.
func decodeSFlow(b []byte, filter []uint32) (d *sflow.SFDatagram, err error, perr error) {
	defer func() {
		if r := recover(); r != nil {
			perr = fmt.Errorf("sflow decoder panicked: %v", r)
		}
	}()
	dec := sflow.NewSFDecoder(bytes.NewReader(b), filter)
	d, err = dec.SFDecode()
	return
}

func inFilter(filter []uint32, f uint32) bool {
	for _, x := range filter {
		if x == f {
			return true
		}
	}
	return false
}

// expectedSamples returns the flow and counter samples that must appear, in wire order, under a filter.
func expectedSamples(spec *wire.SFDatagram, filter []uint32) (flows []*wire.SFFlow, counters []*wire.SFCounter) {
	for i := range spec.Samples {
		s := &spec.Samples[i]
		switch s.Kind {
		case "flow":
			if !inFilter(filter, 1) {
				flows = append(flows, s.Flow)
			}
		case "counter":
			if !inFilter(filter, 2) {
				counters = append(counters, s.Counter)
			}
		}
	}
	return
}

func cmpU(name string, got, want uint64) string {
	if got != want {
		return fmt.Sprintf("%s: decoded %d, wire %d", name, got, want)
	}
	return ""
}

func first(ds ...string) string {
	for _, d := range ds {
		if d != "" {
			return d
		}
	}
	return ""
}

func comparePacket(p *packet.Packet, w *wire.L234) string {
	// L2
	if w.Proto == 1 {
		if p.L2.DstMAC != macText(w.DstMAC) || p.L2.SrcMAC != macText(w.SrcMAC) {
			return fmt.Sprintf("L2 MACs: decoded dst %s src %s, wire dst %s src %s", p.L2.DstMAC, p.L2.SrcMAC, macText(w.DstMAC), macText(w.SrcMAC))
		}
		if p.L2.EtherType != w.EtherType() {
			return fmt.Sprintf("L2 EtherType: decoded %#x, wire %#x", p.L2.EtherType, w.EtherType())
		}
		if w.HasVlan {
			// either the 16-bit tag control field or its 12-bit VLAN id
			if p.L2.Vlan != int(w.TCI) && p.L2.Vlan != int(w.TCI&0xfff) {
				return fmt.Sprintf("L2 Vlan: decoded %d, wire tag control %#x", p.L2.Vlan, w.TCI)
			}
		} else if p.L2.Vlan != 0 {
			return fmt.Sprintf("L2 Vlan: decoded %d for an untagged frame", p.L2.Vlan)
		}
	} else if (p.L2 != packet.Datalink{}) {
		return fmt.Sprintf("L2 populated (%+v) for a header without Ethernet layer", p.L2)
	}
	// L3
	if w.IPVer == 4 {
		h, ok := p.L3.(packet.IPv4Header)
		if !ok {
			return fmt.Sprintf("L3 is %T, wire carries IPv4", p.L3)
		}
		if d := first(cmpU("IPv4 Version", uint64(h.Version), uint64(w.Ver4)), cmpU("IPv4 TOS", uint64(h.TOS), uint64(w.TOS)),
			cmpU("IPv4 TotalLen", uint64(h.TotalLen), uint64(w.TotalLen)), cmpU("IPv4 ID", uint64(h.ID), uint64(w.ID)),
			cmpU("IPv4 Flags", uint64(h.Flags), uint64(w.Flags)), cmpU("IPv4 FragOff", uint64(h.FragOff), uint64(w.FragOff)),
			cmpU("IPv4 TTL", uint64(h.TTL), uint64(w.TTL)), cmpU("IPv4 Protocol", uint64(h.Protocol), uint64(w.L4Proto)),
			cmpU("IPv4 Checksum", uint64(h.Checksum), uint64(w.Checksum))); d != "" {
			return d
		}
		if !ipTextOK(h.Src, w.Src) || !ipTextOK(h.Dst, w.Dst) {
			return fmt.Sprintf("IPv4 addresses: decoded %s -> %s, wire %x -> %x", h.Src, h.Dst, []byte(w.Src), []byte(w.Dst))
		}
	} else {
		h, ok := p.L3.(packet.IPv6Header)
		if !ok {
			return fmt.Sprintf("L3 is %T, wire carries IPv6", p.L3)
		}
		if d := first(cmpU("IPv6 Version", uint64(h.Version), uint64(w.Ver6)), cmpU("IPv6 TrafficClass", uint64(h.TrafficClass), uint64(w.TrafficClass)),
			cmpU("IPv6 FlowLabel", uint64(h.FlowLabel), uint64(w.FlowLabel)), cmpU("IPv6 PayloadLen", uint64(h.PayloadLen), uint64(w.PayloadLen)),
			cmpU("IPv6 NextHeader", uint64(h.NextHeader), uint64(w.L4Proto)), cmpU("IPv6 HopLimit", uint64(h.HopLimit), uint64(w.HopLimit))); d != "" {
			return d
		}
		if !ipTextOK(h.Src, w.Src) || !ipTextOK(h.Dst, w.Dst) {
			return fmt.Sprintf("IPv6 addresses: decoded %s -> %s, wire %x -> %x", h.Src, h.Dst, []byte(w.Src), []byte(w.Dst))
		}
	}
	// L4
	switch w.L4 {
	case "tcp":
		h, ok := p.L4.(packet.TCPHeader)
		if !ok {
			return fmt.Sprintf("L4 is %T, wire carries TCP", p.L4)
		}
		return first(cmpU("TCP SrcPort", uint64(h.SrcPort), uint64(w.SrcPort)), cmpU("TCP DstPort", uint64(h.DstPort), uint64(w.DstPort)),
			cmpU("TCP DataOffset", uint64(h.DataOffset), uint64(w.DataOffset)), cmpU("TCP Flags", uint64(h.Flags), uint64(w.TCPFlags)))
	case "udp":
		h, ok := p.L4.(packet.UDPHeader)
		if !ok {
			return fmt.Sprintf("L4 is %T, wire carries UDP", p.L4)
		}
		return first(cmpU("UDP SrcPort", uint64(h.SrcPort), uint64(w.SrcPort)), cmpU("UDP DstPort", uint64(h.DstPort), uint64(w.DstPort)))
	default:
		h, ok := p.L4.(packet.ICMP)
		if !ok {
			return fmt.Sprintf("L4 is %T, wire carries ICMP", p.L4)
		}
		if d := first(cmpU("ICMP Type", uint64(h.Type), uint64(w.ICMPType)), cmpU("ICMP Code", uint64(h.Code), uint64(w.ICMPCode))); d != "" {
			return d
		}
		if !bytes.HasPrefix(h.RestHeader, w.ICMPRest) {
			return fmt.Sprintf("ICMP RestHeader %x does not start with wire octets 4..7 %x", h.RestHeader, []byte(w.ICMPRest))
		}
	}
	return ""
}

func compareFlowSample(g *sflow.FlowSample, w *wire.SFFlow) string {
	if d := first(cmpU("SequenceNo", uint64(g.SequenceNo), uint64(w.Seq)), cmpU("SourceID", uint64(g.SourceID), uint64(w.SrcType)),
		cmpU("SamplingRate", uint64(g.SamplingRate), uint64(w.Rate)), cmpU("SamplePool", uint64(g.SamplePool), uint64(w.Pool)),
		cmpU("Drops", uint64(g.Drops), uint64(w.Drops)), cmpU("Input", uint64(g.Input), uint64(w.Input)),
		cmpU("Output", uint64(g.Output), uint64(w.Output)), cmpU("RecordsNo", uint64(g.RecordsNo), uint64(len(w.Recs)))); d != "" {
		return d
	}
	wantKeys := map[string]bool{}
	for i := range w.Recs {
		r := &w.Recs[i]
		switch r.Kind {
		case "raw":
			wantKeys["RawHeader"] = true
			p, ok := g.Records["RawHeader"].(*packet.Packet)
			if !ok || p == nil {
				return fmt.Sprintf("raw header record missing (Records has %v)", mapKeys(g.Records))
			}
			if d := comparePacket(p, &r.Raw.Pkt); d != "" {
				return "raw header: " + d
			}
		case "switch":
			wantKeys["ExtSwitch"] = true
			s, ok := g.Records["ExtSwitch"].(*sflow.ExtSwitchData)
			if !ok || s == nil {
				return fmt.Sprintf("extended switch record missing (Records has %v)", mapKeys(g.Records))
			}
			if d := first(cmpU("ExtSwitch SrcVlan", uint64(s.SrcVlan), uint64(r.Switch[0])), cmpU("ExtSwitch SrcPriority", uint64(s.SrcPriority), uint64(r.Switch[1])),
				cmpU("ExtSwitch DstVlan", uint64(s.DstVlan), uint64(r.Switch[2])), cmpU("ExtSwitch DstPriority", uint64(s.DstPriority), uint64(r.Switch[3]))); d != "" {
				return d
			}
		case "router":
			wantKeys["ExtRouter"] = true
			s, ok := g.Records["ExtRouter"].(*sflow.ExtRouterData)
			if !ok || s == nil {
				return fmt.Sprintf("extended router record missing (Records has %v)", mapKeys(g.Records))
			}
			if !bytes.Equal(s.NextHop, r.Router.NextHop) {
				return fmt.Sprintf("ExtRouter NextHop: decoded %x, wire %x", []byte(s.NextHop), []byte(r.Router.NextHop))
			}
			if d := first(cmpU("ExtRouter SrcMask", uint64(s.SrcMask), uint64(r.Router.SrcMask)), cmpU("ExtRouter DstMask", uint64(s.DstMask), uint64(r.Router.DstMask))); d != "" {
				return d
			}
		}
	}
	for k := range g.Records {
		if !wantKeys[k] {
			return fmt.Sprintf("decoded record %q that the wire does not carry", k)
		}
	}
	return ""
}

func mapKeys(m map[string]sflow.Record) []string {
	var out []string
	for k := range m {
		out = append(out, k)
	}
	return out
}

func compareCounterSample(g *sflow.CounterSample, w *wire.SFCounter) string {
	if d := first(cmpU("counter SequenceNo", uint64(g.SequenceNo), uint64(w.Seq)), cmpU("SourceIDType", uint64(g.SourceIDType), uint64(w.SrcType)),
		cmpU("SourceIDIdx", uint64(g.SourceIDIdx), uint64(w.SrcIdx)), cmpU("counter RecordsNo", uint64(g.RecordsNo), uint64(len(w.Recs)))); d != "" {
		return d
	}
	wantKeys := map[string]bool{}
	for i := range w.Recs {
		r := &w.Recs[i]
		l, ok := wire.CounterLayouts[r.Kind]
		if !ok {
			continue
		}
		wantKeys[l.Key] = true
		rec, ok := g.Records[l.Key]
		if !ok || rec == nil {
			return fmt.Sprintf("counter record %s missing (Records has %v)", l.Key, mapKeys(g.Records))
		}
		rv := reflect.ValueOf(rec)
		if rv.Kind() != reflect.Ptr || rv.Elem().Kind() != reflect.Struct {
			return fmt.Sprintf("counter record %s has unexpected Go type %T", l.Key, rec)
		}
		sv := rv.Elem()
		if sv.NumField() != len(l.Sizes) {
			return fmt.Sprintf("counter record %s has %d fields, the sFlow structure has %d", l.Key, sv.NumField(), len(l.Sizes))
		}
		for k := range l.Sizes {
			if got := sv.Field(k).Uint(); got != r.Vals[k] {
				return fmt.Sprintf("counter record %s field %s: decoded %d, wire %d", l.Key, sv.Type().Field(k).Name, got, r.Vals[k])
			}
		}
	}
	for k := range g.Records {
		if !wantKeys[k] {
			return fmt.Sprintf("decoded counter record %q that the wire does not carry", k)
		}
	}
	return ""
}

// compareSFDatagram: the reference comparison of a decoded datagram with its specification under a filter.
func compareSFDatagram(g *sflow.SFDatagram, spec *wire.SFDatagram, filter []uint32) string {
	ipver := uint64(1)
	if len(spec.Agent) == 16 {
		ipver = 2
	}
	if d := first(cmpU("Version", uint64(g.Version), 5), cmpU("IPVersion", uint64(g.IPVersion), ipver), cmpU("AgentSubID", uint64(g.AgentSubID), uint64(spec.SubID)),
		cmpU("datagram SequenceNo", uint64(g.SequenceNo), uint64(spec.Seq)), cmpU("SysUpTime", uint64(g.SysUpTime), uint64(spec.Uptime)),
		cmpU("SamplesNo", uint64(g.SamplesNo), uint64(len(spec.Samples)))); d != "" {
		return d
	}
	if !bytes.Equal(g.IPAddress, spec.Agent) {
		return fmt.Sprintf("agent address: decoded %x, wire %x", []byte(g.IPAddress), []byte(spec.Agent))
	}
	flows, counters := expectedSamples(spec, filter)
	if len(g.Samples) != len(flows) {
		return fmt.Sprintf("decoded %d flow samples, expected %d", len(g.Samples), len(flows))
	}
	if len(g.Counters) != len(counters) {
		return fmt.Sprintf("decoded %d counter samples, expected %d", len(g.Counters), len(counters))
	}
	for i, w := range flows {
		fs, ok := g.Samples[i].(*sflow.FlowSample)
		if !ok || fs == nil {
			return fmt.Sprintf("flow sample %d has Go type %T", i, g.Samples[i])
		}
		if d := compareFlowSample(fs, w); d != "" {
			return fmt.Sprintf("flow sample %d: %s", i, d)
		}
	}
	for i, w := range counters {
		cs, ok := g.Counters[i].(*sflow.CounterSample)
		if !ok || cs == nil {
			return fmt.Sprintf("counter sample %d has Go type %T", i, g.Counters[i])
		}
		if d := compareCounterSample(cs, w); d != "" {
			return fmt.Sprintf("counter sample %d: %s", i, d)
		}
	}
	return ""
}

func sflowVerdict(spec *wire.SFDatagram, filter []uint32) verdict {
	var v verdict
	skippedBeforeDecoded, sawSkipped := false, false
	filteredBeforeKept, sawFiltered := false, false
	rich := false
	for i := range spec.Samples {
		s := &spec.Samples[i]
		ent, f := s.SampleType()
		filtered := ent == 0 && inFilter(filter, f)
		switch s.Kind {
		case "unknown":
			sawSkipped = true
			v.label(s.Enterprise != 0, "enterprise-sample")
			v.label(s.Enterprise == 0, "unknown-format-sample")
		case "flow":
			if !filtered && sawSkipped {
				skippedBeforeDecoded = true
			}
			for k := range s.Flow.Recs {
				r := &s.Flow.Recs[k]
				v.label(r.Kind == "unknown", "unknown-flow-record")
				v.label(r.Kind == "switch", "ext-switch")
				v.label(r.Kind == "router", "ext-router")
				if r.Kind == "raw" {
					p := &r.Raw.Pkt
					v.label(p.HasVlan, "vlan")
					v.label(p.HasVlan && p.TCI > 0xfff, "vlan-priority-bits")
					v.label(p.IPVer == 6, "ipv6")
					v.label(p.L4 == "icmp", "icmp")
					v.label(p.L4 == "tcp", "tcp")
					v.label(p.L4 == "udp", "udp")
					v.label(p.Proto != 1, "header-protocol-ip")
					v.label(len(p.Bytes())%4 != 0, "xdr-padded-header")
					v.label(len(p.Bytes()) > 1400, "header>1400")
					if p.HasVlan || p.IPVer == 6 || p.L4 == "icmp" {
						rich = true
					}
				}
			}
		case "counter":
			if !filtered && sawSkipped {
				skippedBeforeDecoded = true
			}
			known := 0
			for k := range s.Counter.Recs {
				if s.Counter.Recs[k].Kind != "unknown" {
					known++
				} else {
					v.label(true, "unknown-counter-record")
				}
			}
			if len(s.Counter.Recs) >= 2 {
				rich = true
			}
			v.label(known >= 2, "counter>=2-known-records")
		}
		if filtered {
			sawFiltered = true
			v.label(true, "filtered-sample")
		} else if sawFiltered && s.Kind != "unknown" {
			filteredBeforeKept = true
		}
	}
	v.label(len(spec.Agent) == 16, "agent-ipv6")
	v.label(skippedBeforeDecoded, "skipped-before-decoded")
	v.label(filteredBeforeKept, "filtered-before-kept")
	v.label(len(spec.Samples) == 0, "no-samples")
	v.NT = (len(spec.Samples) >= 2 && skippedBeforeDecoded) || rich
	return v
}

// runSFlowDecode: oracle of C07 (filter empty) and C18 (any filter).
func runSFlowDecode(spec *wire.SFDatagram, filter []uint32) (v verdict, sig string, err error) {
	v = sflowVerdict(spec, filter)
	g, derr, perr := decodeSFlow(spec.Bytes(), filter)
	if perr != nil {
		return v, "panic", perr
	}
	if derr != nil || g == nil {
		return v, "rejected", fmt.Errorf("well-formed datagram rejected: %v", derr)
	}
	if d := compareSFDatagram(g, spec, filter); d != "" {
		return v, "mismatch", fmt.Errorf("%s", d)
	}
	return v, "", nil
}

// runC05SFlow: the worker publishes json.Marshal(datagram); it must be valid and carry the decode.
func runC05SFlow(spec *wire.SFDatagram) (v verdict, sig string, err error) {
	v = sflowVerdict(spec, nil)
	g, derr, perr := decodeSFlow(spec.Bytes(), nil)
	if perr != nil {
		return v, "panic", perr
	}
	if derr != nil || g == nil || (len(g.Samples) == 0 && len(g.Counters) == 0) {
		v.NT = false
		v.label(true, "nothing-to-publish")
		return v, "", nil
	}
	js, jerr := json.Marshal(g)
	if jerr != nil {
		return v, "encode-error", fmt.Errorf("json.Marshal of a decoded sFlow datagram failed (the worker drops it): %v", jerr)
	}
	doc, d := parseSingleJSON(js)
	if d != "" {
		return v, "json", fmt.Errorf("%s", d)
	}
	// header fields and agent address as decoded
	for k, w := range map[string]uint64{"Version": uint64(g.Version), "IPVersion": uint64(g.IPVersion), "AgentSubID": uint64(g.AgentSubID),
		"SequenceNo": uint64(g.SequenceNo), "SysUpTime": uint64(g.SysUpTime), "SamplesNo": uint64(g.SamplesNo)} {
		if x, ok := jsonNumber(doc[k]); !ok || x != w {
			return v, "json", fmt.Errorf("JSON %s = %v, decoded %d", k, doc[k], w)
		}
	}
	if s, ok := doc["IPAddress"].(string); !ok || !ipTextOK(s, g.IPAddress) {
		return v, "json", fmt.Errorf("JSON IPAddress = %v, decoded agent address %x", doc["IPAddress"], []byte(g.IPAddress))
	}
	ns, _ := doc["Samples"].([]interface{})
	nc, _ := doc["Counters"].([]interface{})
	if len(ns) != len(g.Samples) || len(nc) != len(g.Counters) {
		return v, "json", fmt.Errorf("JSON carries %d samples / %d counters, decoded %d / %d", len(ns), len(nc), len(g.Samples), len(g.Counters))
	}
	// spot-check numbers exactly against the wire model
	flows, _ := expectedSamples(spec, nil)
	for i, w := range flows {
		if i >= len(ns) {
			break
		}
		m, _ := ns[i].(map[string]interface{})
		for k, wv := range map[string]uint64{"SequenceNo": uint64(w.Seq), "SamplingRate": uint64(w.Rate), "SamplePool": uint64(w.Pool), "Input": uint64(w.Input), "Output": uint64(w.Output)} {
			if x, ok := jsonNumber(m[k]); !ok || x != wv {
				return v, "json", fmt.Errorf("JSON flow sample %d %s = %v, wire %d", i, k, m[k], wv)
			}
		}
	}
	return v, "", nil
}
