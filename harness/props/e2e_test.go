package props

// End-to-end rig: builds nothing itself (the vflow binary is built by tools/check.py from /repo's working
// tree), starts the real collector with a generated configuration, owns the raw-socket TCP sink, sends UDP
// datagrams from distinct 127.0.0.x exporter addresses, reads the restful stats API, delivers signals.

import (
	"runtime"
	"unsafe"

	"bytes"
	"encoding/json"
	"fmt"
	"io"
	"net"
	"net/http"
	"os"
	"os/exec"
	"path/filepath"
	"strconv"
	"strings"
	"sync"
	"syscall"
	"time"
)

type e2ePorts struct {
	IPFIX, NF9, NF5, SFlow, Stats int
}

type vflowProc struct {
	cmd    *exec.Cmd
	dir    string
	ports  e2ePorts
	stderr bytes.Buffer
	mu     sync.Mutex
	done   chan struct{}
	status error
}

var e2ePortCounter int

// pickPorts reserves five free ports in a range owned by this shard.
func pickPorts() (e2ePorts, error) {
	// blocks below the ephemeral port range (32768..): exporter sockets and sink connections of parallel
	// shards get ephemeral ports and must not be able to take a port between this probe and the collector's bind
	shard, _ := strconv.Atoi(os.Getenv("VERIF_SHARD_INDEX"))
	base := 10000 + (shard%22)*1000
	for try := 0; try < 200; try++ {
		e2ePortCounter++
		p0 := base + (e2ePortCounter%195)*5
		ok := true
		var held []io.Closer
		for k := 0; k < 4 && ok; k++ {
			c, err := net.ListenPacket("udp", fmt.Sprintf(":%d", p0+k))
			if err != nil {
				ok = false
				break
			}
			held = append(held, c)
		}
		if ok {
			l, err := net.Listen("tcp", fmt.Sprintf("127.0.0.1:%d", p0+4))
			if err != nil {
				ok = false
			} else {
				held = append(held, l)
			}
		}
		for _, h := range held {
			h.Close()
		}
		if ok {
			return e2ePorts{p0, p0 + 1, p0 + 2, p0 + 3, p0 + 4}, nil
		}
	}
	return e2ePorts{}, fmt.Errorf("harness: no free port block")
}

type e2eConfig struct {
	Workers  int
	UDPSize  int
	SinkAddr string
	Extra    map[string]string // additional yaml lines key -> rendered value
	Args     []string          // additional command-line arguments
	Env      []string
	Disabled map[string]bool // protocols (ipfix | nf9 | nf5 | sflow) switched off with <protocol>-enabled: false
	// ReadyWithout: protocols the caller expects not to run (switched off through sources of its own); readiness
	// does not wait for them
	ReadyWithout map[string]bool
	// RelCache: the two cache-file settings are relative names and the process runs in <dir>/run while its
	// configuration lives in <dir> (relative names are an ordinary way to write a configuration)
	RelCache bool
	// CPUs > 0: the process is started with its CPU affinity restricted to that many CPUs (what the runtime
	// reports as the number of CPUs; a container limit or taskset does the same)
	CPUs int
	// NoWait: return as soon as the process has been started (no readiness check)
	NoWait bool
}

// lateElements installs the shipped element file while the collector runs, the way a plain copy does it: in two
// writes half a second apart (both within one second of the wall clock), three times over, then waits 2 s. A collector reads the
// file at start-up or whenever it likes; what it decodes afterwards must be what the complete file (= the built-in
// table) says.
func lateElements(dir string) {
	src, err := os.ReadFile(filepath.Join(repoDir(), "scripts", "ipfix.elements"))
	if err != nil {
		return
	}
	cut := bytes.LastIndexByte(src[:len(src)*45/100], '\n') + 1
	dst := filepath.Join(dir, "ipfix.elements")
	// three times (the file is copied again: a deployment tool that runs more than once)
	for round := 0; round < 3; round++ {
		for time.Now().Nanosecond() > 150e6 {
			time.Sleep(10 * time.Millisecond)
		}
		f, err := os.OpenFile(dst, os.O_CREATE|os.O_WRONLY|os.O_TRUNC, 0o644)
		if err != nil {
			return
		}
		f.Write(src[:cut])
		f.Sync()
		time.Sleep(550 * time.Millisecond)
		f.Write(src[cut:])
		f.Close()
		time.Sleep(400 * time.Millisecond)
	}
	time.Sleep(2 * time.Second)
}

// startVflow writes the configuration into dir and starts the collector; a start that fails because a port
// was taken by somebody else in the meantime is repeated with another port block.
func startVflow(dir string, ports e2ePorts, cfg e2eConfig, race bool) (*vflowProc, error) {
	p, err := startVflowOnce(dir, ports, cfg, race)
	defer func() {
		if err == nil && cfg.Extra["~elements~"] == "late" {
			lateElements(dir)
		}
	}()
	for try := 0; err != nil && p != nil && try < 3 && strings.Contains(p.stderrText(), "address already in use") && e2eDropKeys == nil; try++ {
		np, perr := pickPorts()
		if perr != nil {
			break
		}
		*(&ports) = np
		p, err = startVflowOnce(dir, np, cfg, race)
	}
	return p, err
}

func startVflowOnce(dir string, ports e2ePorts, cfg e2eConfig, race bool) (*vflowProc, error) {
	bin := os.Getenv("VERIF_VFLOW")
	if race {
		bin = os.Getenv("VERIF_VFLOW_RACE")
	}
	if bin == "" {
		return nil, fmt.Errorf("harness: vflow binary not configured")
	}
	if cfg.Workers < 1 {
		cfg.Workers = 2
	}
	if cfg.UDPSize < 1 {
		cfg.UDPSize = 1500
	}
	lines := map[string]string{
		"ipfix-port": strconv.Itoa(ports.IPFIX), "netflow9-port": strconv.Itoa(ports.NF9), "netflow5-port": strconv.Itoa(ports.NF5), "sflow-port": strconv.Itoa(ports.SFlow),
		"ipfix-workers": strconv.Itoa(cfg.Workers), "netflow9-workers": strconv.Itoa(cfg.Workers), "netflow5-workers": strconv.Itoa(cfg.Workers), "sflow-workers": strconv.Itoa(cfg.Workers),
		"ipfix-udp-size": strconv.Itoa(cfg.UDPSize), "netflow9-udp-size": strconv.Itoa(cfg.UDPSize), "netflow5-udp-size": strconv.Itoa(cfg.UDPSize), "sflow-udp-size": strconv.Itoa(cfg.UDPSize),
		"stats-format": "restful", "stats-http-addr": `"127.0.0.1"`, "stats-http-port": fmt.Sprintf("%q", strconv.Itoa(ports.Stats)),
		"ipfix-rpc-enabled": "false", "dynamic-workers": "false",
		"pid-file":                fmt.Sprintf("%q", filepath.Join(dir, "vflow.pid")),
		"ipfix-tpl-cache-file":    fmt.Sprintf("%q", filepath.Join(dir, "ipfix.templates")),
		"netflow9-tpl-cache-file": fmt.Sprintf("%q", filepath.Join(dir, "netflow9.templates")),
		"mq-name":                 "rawSocket", "mq-config-file": "mq.conf",
	}
	if cfg.RelCache {
		lines["ipfix-tpl-cache-file"] = `"ipfix.templates"`
		lines["netflow9-tpl-cache-file"] = `"netflow9.templates"`
	}
	for proto, key := range map[string]string{"ipfix": "ipfix-enabled", "nf9": "netflow9-enabled", "nf5": "netflow5-enabled", "sflow": "sflow-enabled"} {
		if cfg.Disabled[proto] {
			lines[key] = "false"
		}
	}
	mqLines := map[string]string{"url": fmt.Sprintf("%q", cfg.SinkAddr), "protocol": "tcp", "retry-max": "2"}
	for k, v := range cfg.Extra {
		if k == "~elements~" {
			// the shipped information-element file is installed in the configuration directory (as a copy, or as a
			// symbolic link to one): decoding must not depend on it
			src, err := os.ReadFile(filepath.Join(repoDir(), "scripts", "ipfix.elements"))
			if err != nil {
				return nil, fmt.Errorf("harness: %v", err)
			}
			dst := filepath.Join(dir, "ipfix.elements")
			os.Remove(dst)
			if v == "late" {
				continue // installed while the collector runs, see lateElements
			}
			if v == "link" {
				real := filepath.Join(dir, "ipfix.elements.real")
				if err := os.WriteFile(real, src, 0o644); err != nil {
					return nil, fmt.Errorf("harness: %v", err)
				}
				if err := os.Symlink("ipfix.elements.real", dst); err != nil {
					return nil, fmt.Errorf("harness: %v", err)
				}
			} else if err := os.WriteFile(dst, src, 0o644); err != nil {
				return nil, fmt.Errorf("harness: %v", err)
			}
			continue
		}
		if strings.HasPrefix(k, "mq:") {
			// a setting of the producer's own configuration file ("~drop~" removes the line)
			if v == "~drop~" {
				delete(mqLines, strings.TrimPrefix(k, "mq:"))
			} else {
				mqLines[strings.TrimPrefix(k, "mq:")] = v
			}
			continue
		}
		lines[k] = v
	}
	var sb strings.Builder
	for k, v := range lines {
		if e2eDropKeys[k] {
			continue
		}
		sb.WriteString(k + ": " + v + "\n")
	}
	if err := os.WriteFile(filepath.Join(dir, "vflow.conf"), []byte(sb.String()), 0o644); err != nil {
		return nil, err
	}
	var mq strings.Builder
	for k, v := range mqLines {
		mq.WriteString(k + ": " + v + "\n")
	}
	os.WriteFile(filepath.Join(dir, "mq.conf"), []byte(mq.String()), 0o644)
	os.Remove(filepath.Join(dir, "vflow.pid"))

	p := &vflowProc{dir: dir, ports: ports, done: make(chan struct{})}
	args := append([]string{"-config", filepath.Join(dir, "vflow.conf")}, cfg.Args...)
	p.cmd = exec.Command(bin, args...)
	p.cmd.Env = append(append(os.Environ(), "GORACE=halt_on_error=0"), cfg.Env...)
	p.cmd.Dir = dir
	if cfg.RelCache {
		p.cmd.Dir = filepath.Join(dir, "run")
		os.MkdirAll(p.cmd.Dir, 0o755)
	}
	se, err := p.cmd.StderrPipe()
	if err != nil {
		return nil, err
	}
	p.cmd.Stdout = nil
	if err := startWithCPUs(p.cmd, cfg.CPUs); err != nil {
		return nil, err
	}
	go func() {
		buf := make([]byte, 32768)
		for {
			n, err := se.Read(buf)
			if n > 0 {
				p.mu.Lock()
				if p.stderr.Len() < 4<<20 {
					p.stderr.Write(buf[:n])
				}
				p.mu.Unlock()
			}
			if err != nil {
				break
			}
		}
		p.status = p.cmd.Wait()
		close(p.done)
	}()
	if cfg.NoWait {
		return p, nil
	}
	// readiness: the stats API answers
	deadline := time.Now().Add(10 * time.Second)
	for time.Now().Before(deadline) {
		select {
		case <-p.done:
			return p, fmt.Errorf("collector exited during start-up: %v: %s", p.status, p.stderrTail())
		default:
		}
		// the stats listener comes up concurrently with the four protocol listeners; a protocol reports
		// its workers only after its UDP socket is bound, so wait for all four
		if fs, err := p.flowStats(); err == nil && fs.IPFIX != nil && fs.NetflowV9 != nil && fs.NetflowV5 != nil && fs.SFlow != nil &&
			(fs.IPFIX.Workers > 0 || cfg.Disabled["ipfix"] || cfg.ReadyWithout["ipfix"]) && (fs.NetflowV9.Workers > 0 || cfg.Disabled["nf9"] || cfg.ReadyWithout["nf9"]) &&
			(fs.NetflowV5.Workers > 0 || cfg.Disabled["nf5"] || cfg.ReadyWithout["nf5"]) && (fs.SFlow.Workers > 0 || cfg.Disabled["sflow"] || cfg.ReadyWithout["sflow"]) {
			return p, nil
		}
		time.Sleep(30 * time.Millisecond)
	}
	p.kill()
	return p, fmt.Errorf("collector did not report all enabled listeners through its stats API within 10 s: %s", p.stderrTail())
}

// startWithCPUs starts cmd; with n > 0 the child inherits an affinity mask of the first n CPUs this process may use
// (the affinity of the forking thread is narrowed around the fork and restored afterwards).
func startWithCPUs(cmd *exec.Cmd, n int) error {
	if n <= 0 {
		return cmd.Start()
	}
	runtime.LockOSThread()
	defer runtime.UnlockOSThread()
	var old, narrow [16]uint64
	if _, _, e := syscall.RawSyscall(syscall.SYS_SCHED_GETAFFINITY, 0, uintptr(len(old)*8), uintptr(unsafe.Pointer(&old[0]))); e != 0 {
		return cmd.Start()
	}
	left := n
	for w := range old {
		for b := uint(0); b < 64 && left > 0; b++ {
			if old[w]&(1<<b) != 0 {
				narrow[w] |= 1 << b
				left--
			}
		}
	}
	if _, _, e := syscall.RawSyscall(syscall.SYS_SCHED_SETAFFINITY, 0, uintptr(len(narrow)*8), uintptr(unsafe.Pointer(&narrow[0]))); e != 0 {
		return cmd.Start()
	}
	err := cmd.Start()
	syscall.RawSyscall(syscall.SYS_SCHED_SETAFFINITY, 0, uintptr(len(old)*8), uintptr(unsafe.Pointer(&old[0])))
	return err
}

func (p *vflowProc) stderrText() string {
	p.mu.Lock()
	defer p.mu.Unlock()
	return p.stderr.String()
}

func (p *vflowProc) stderrTail() string {
	s := p.stderrText()
	if i := strings.Index(s, "panic:"); i >= 0 {
		s = s[i:]
	} else if i := strings.Index(s, "fatal error:"); i >= 0 {
		s = s[i:]
	}
	if len(s) > 3000 {
		s = s[:3000]
	}
	return s
}

type protoStats struct {
	UDPQueue     int
	MessageQueue int
	UDPCount     uint64
	DecodedCount uint64
	MQErrorCount uint64
	Workers      int32
}

type flowStats struct {
	IPFIX     *protoStats
	SFlow     *protoStats
	NetflowV5 *protoStats
	NetflowV9 *protoStats
}

var e2eHTTP = &http.Client{Timeout: 2 * time.Second}

func (p *vflowProc) flowStats() (*flowStats, error) {
	resp, err := e2eHTTP.Get(fmt.Sprintf("http://127.0.0.1:%d/flow", p.ports.Stats))
	if err != nil {
		return nil, err
	}
	defer resp.Body.Close()
	b, err := io.ReadAll(resp.Body)
	if err != nil {
		return nil, err
	}
	var fs flowStats
	if err := json.Unmarshal(b, &fs); err != nil {
		return nil, err
	}
	return &fs, nil
}

func (fs *flowStats) of(proto string) *protoStats {
	switch proto {
	case "ipfix":
		return fs.IPFIX
	case "nf9":
		return fs.NetflowV9
	case "nf5":
		return fs.NetflowV5
	}
	return fs.SFlow
}

func (p *vflowProc) port(proto string) int {
	switch proto {
	case "ipfix":
		return p.ports.IPFIX
	case "nf9":
		return p.ports.NF9
	case "nf5":
		return p.ports.NF5
	}
	return p.ports.SFlow
}

func (p *vflowProc) signal(sig syscall.Signal) { p.cmd.Process.Signal(sig) }

func (p *vflowProc) kill() {
	p.cmd.Process.Kill()
	<-p.done
}

// waitExit waits for the process to end; returns false on timeout.
func (p *vflowProc) waitExit(d time.Duration) bool {
	select {
	case <-p.done:
		return true
	case <-time.After(d):
		return false
	}
}

// waitExitFair waits d for the process to end. A collector that has not ended by then but still has runnable
// threads is not stuck, it is waiting for a processor on a busy machine (or still working): it is given more time,
// 30 s in all. A collector whose threads all sleep is stuck, and the verdict stands at once.
func (p *vflowProc) waitExitFair(d time.Duration) bool {
	if p.waitExit(d) {
		return true
	}
	for waited := d; waited < 30*time.Second; waited += 2 * time.Second {
		if p.cmd == nil || p.cmd.Process == nil {
			return p.exited()
		}
		if !procRunnable(p.cmd.Process.Pid) {
			// all threads sleep: stuck — unless it is the collector's own one-second grace pause, begun late
			if p.waitExit(1500 * time.Millisecond) {
				return true
			}
			if !procRunnable(p.cmd.Process.Pid) {
				return p.exited()
			}
		}
		if p.waitExit(2 * time.Second) {
			return true
		}
	}
	return p.exited()
}

func (p *vflowProc) exited() bool {
	select {
	case <-p.done:
		return true
	default:
		return false
	}
}

// ---------------------------------------------------------------- exporters

type exporterSock struct {
	conn *net.UDPConn
	addr net.IP // the address the collector sees
}

// openExporter binds a UDP socket to 127.0.0.<n> (n >= 2) or ::1 (n == 0).
func openExporter(n int) (*exporterSock, error) {
	if n == 0 {
		c, err := net.ListenUDP("udp6", &net.UDPAddr{IP: net.ParseIP("::1")})
		if err != nil {
			return nil, err
		}
		return &exporterSock{conn: c, addr: net.ParseIP("::1")}, nil
	}
	ip := net.IPv4(127, 0, 0, byte(n))
	c, err := net.ListenUDP("udp4", &net.UDPAddr{IP: ip})
	if err != nil {
		return nil, err
	}
	return &exporterSock{conn: c, addr: ip.To16()}, nil
}

func (e *exporterSock) send(port int, b []byte) error {
	dst := &net.UDPAddr{IP: net.IPv4(127, 0, 0, 1), Port: port}
	if e.addr.To4() == nil {
		dst = &net.UDPAddr{IP: net.ParseIP("::1"), Port: port}
	}
	_, err := e.conn.WriteToUDP(b, dst)
	return err
}

// ---------------------------------------------------------------- sink (lines over TCP, several connections)

type lineSink struct {
	ln    net.Listener
	mu    sync.Mutex
	lines []string
	seen  map[string]int
	note  chan struct{}
}

func newLineSink() (*lineSink, error) {
	ln, err := net.Listen("tcp", "127.0.0.1:0")
	if err != nil {
		return nil, err
	}
	s := &lineSink{ln: ln, seen: map[string]int{}, note: make(chan struct{}, 1)}
	go func() {
		for {
			c, err := ln.Accept()
			if err != nil {
				return
			}
			go func(c net.Conn) {
				defer c.Close()
				var pending []byte
				buf := make([]byte, 65536)
				for {
					n, err := c.Read(buf)
					if n > 0 {
						pending = append(pending, buf[:n]...)
						s.mu.Lock()
						for {
							i := bytes.IndexByte(pending, '\n')
							if i < 0 {
								break
							}
							l := string(pending[:i])
							s.lines = append(s.lines, l)
							s.seen[l]++
							pending = pending[i+1:]
						}
						s.mu.Unlock()
						select {
						case s.note <- struct{}{}:
						default:
						}
					}
					if err != nil {
						return
					}
				}
			}(c)
		}
	}()
	return s, nil
}

func (s *lineSink) addr() string { return s.ln.Addr().String() }
func (s *lineSink) close()       { s.ln.Close() }

func (s *lineSink) count(line string) int {
	s.mu.Lock()
	defer s.mu.Unlock()
	return s.seen[line]
}

func (s *lineSink) total() int {
	s.mu.Lock()
	defer s.mu.Unlock()
	return len(s.lines)
}

func (s *lineSink) snapshot() map[string]int {
	s.mu.Lock()
	defer s.mu.Unlock()
	out := make(map[string]int, len(s.seen))
	for k, v := range s.seen {
		out[k] = v
	}
	return out
}

// waitFor waits until line has been received (at least once).
func (s *lineSink) waitFor(line string, d time.Duration) bool {
	deadline := time.Now().Add(d)
	for {
		if s.count(line) > 0 {
			return true
		}
		rem := time.Until(deadline)
		if rem <= 0 {
			return false
		}
		if rem > 25*time.Millisecond {
			rem = 25 * time.Millisecond
		}
		select {
		case <-s.note:
		case <-time.After(rem):
		}
	}
}

// udpDrops reads the kernel's drop counter of the UDP socket bound to port (from /proc/net/udp and udp6).
func udpDrops(port int) int {
	total := 0
	for _, f := range []string{"/proc/net/udp", "/proc/net/udp6"} {
		b, err := os.ReadFile(f)
		if err != nil {
			continue
		}
		for _, line := range strings.Split(string(b), "\n")[1:] {
			fs := strings.Fields(line)
			if len(fs) < 13 {
				continue
			}
			la := strings.Split(fs[1], ":")
			if len(la) != 2 {
				continue
			}
			p, err := strconv.ParseInt(la[1], 16, 32)
			if err != nil || int(p) != port {
				continue
			}
			d, _ := strconv.Atoi(fs[len(fs)-1])
			total += d
		}
	}
	return total
}
