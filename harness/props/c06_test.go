package props

// C06 — NetFlow v9 records are decoded exactly as their templates describe (RFC 3954 framing).

import "testing"

const c06Rule = "case = exporter address + optional earlier announcement packet + one well-formed NetFlow v9 export packet " +
	"(1..3 templates: plain and options templates with 0..3 scope fields given by octet lengths, any element of the table, natural, reduced and arbitrary " +
	"fixed lengths; 1..4 data flowsets x 1..20 records; zero padding 0..3 octets shorter than the record); " +
	"oracle = packet header fields equal the wire and decoded records equal the reference interpretation field for field, scope fields first, in wire order; " +
	"non-trivial = at least one record under a template with >= 2 fields; distinct by hash of the case"

func TestC06(t *testing.T) {
	scenarioProperty(t, "C06", "nf9", c06Rule, runScenarioDecode, 4, 20)
}

func init() { registerScenarioReplay("C06", runScenarioDecode) }
