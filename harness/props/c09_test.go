package props

// C09 — an undecodable set never corrupts its neighbours; truncation never fabricates.
// Metamorphic (insertion of undecodable sets) + exhaustive over truncation offsets.

import (
	"encoding/json"
	"fmt"
	"testing"

	"pgregory.net/rapid"
	"verif/harness/wire"
)

type c09Ins struct {
	Pos  int      `json:"pos"`  // insert before Main.Sets[Pos] (len = append)
	Kind string   `json:"kind"` // unknown-template | reserved | missing-element
	Set  wire.Set `json:"set"`
}

type c09Case struct {
	Sc wire.Scenario `json:"sc"`
	// Extra announcements needed by "missing-element" insertions (templates naming an element absent from the model).
	ExtraPre []wire.Msg `json:"extra_pre,omitempty"`
	Ins      []c09Ins   `json:"ins"`
}

const c09Rule = "case = well-formed IPFIX or NetFlow v9 message M (generator of C03/C06, templates pre-announced and/or in-message) + 0..3 undecodable sets U inserted at drawn positions (in 1 case of 20 also 15..65 small unknown-template sets): " +
	"unknown template id with any body (random, zeros, or bytes that look like valid sets), reserved id 4..255 with any body, data for an announced template that names an element missing from the information model (also among its scope fields; also when that definition supersedes an earlier, fully known definition of the same id), data for a template that the message itself announces only later, data for an id named by a field-less template record after its announcement, data naming a template whose records cannot fit any set (field lengths summing beyond a datagram / beyond 16 bits); " +
	"oracle (a) insertion: records(M+U) == records(M) and a non-empty unknown-template set is reported as an error; " +
	"(b) truncation, enumerated for EVERY offset 0..len of M and of M+U against an identically prepared cache: records of the prefix (nil message = none) form a prefix of the full decode's records; " +
	"non-trivial = the message carries >= 1 data record (so some offsets cut inside a record) ; label 'U-between-data-sets' marks the sandwich shape; distinct by hash"

func genC09(t *rapid.T, env *wire.GenEnv) c09Case {
	var c c09Case
	c.Sc = env.GenScenario(t, 3, 5)
	used := map[uint16]bool{}
	for _, m := range append(append([]wire.Msg{}, c.Sc.Pre...), c.Sc.Main) {
		for _, s := range m.Sets {
			for _, tp := range s.Tpls {
				used[tp.ID] = true
			}
			if s.Tpl != nil {
				used[s.Tpl.ID] = true
			}
		}
	}
	freshID := func() uint16 {
		id := wire.GenTemplateID(t)
		for used[id] {
			id++
			if id < 256 {
				id = 256
			}
		}
		used[id] = true
		return id
	}
	body0 := func() []byte {
		switch rapid.IntRange(0, 3).Draw(t, "bodykind") {
		case 0:
			n := rapid.IntRange(0, 40).Draw(t, "bodylen")
			return rapid.SliceOfN(rapid.Byte(), n, n).Draw(t, "body")
		case 1:
			return make([]byte, rapid.IntRange(0, 24).Draw(t, "zeros"))
		case 2:
			// a body that itself looks like a complete valid data set of M
			for i := range c.Sc.Main.Sets {
				if c.Sc.Main.Sets[i].Kind == "data" {
					return wire.EncodeSet(c.Sc.Main.Proto, &c.Sc.Main.Sets[i])
				}
			}
			return []byte{1, 0, 0, 8, 1, 2, 3, 4}
		default:
			// looks like a template set
			tp := env.GenTemplate(t, 256)
			s := wire.Set{Kind: "tpl", Tpls: []wire.Template{tp}}
			if tp.Options {
				s.Kind = "opt"
			}
			return wire.EncodeSet(c.Sc.Main.Proto, &s)
		}
	}
	body := func() []byte {
		b := body0()
		// trailing filler: a cut inside the filler leaves everything before it intact
		if nf := rapid.SampledFrom([]int{0, 0, 1, 4, 8}).Draw(t, "filler"); nf > 0 {
			b = append(append([]byte{}, b...), rapid.SliceOfN(rapid.Byte(), nf, nf).Draw(t, "fillerbytes")...)
		}
		return b
	}
	n := rapid.IntRange(0, 3).Draw(t, "nins")
	many := 0
	if rapid.IntRange(0, 19).Draw(t, "manyins") == 0 {
		// many undecodable sets in one message (counts around the 4-, 5- and 6-bit marks): small unknown-template
		// sets spread over the positions, next to the 0..3 elaborate ones
		many = rapid.SampledFrom([]int{15, 16, 17, 18, 31, 32, 33, 64, 65}).Draw(t, "nmanyins")
	}
	for i := 0; i < many; i++ {
		c.Ins = append(c.Ins, c09Ins{Pos: rapid.IntRange(0, len(c.Sc.Main.Sets)).Draw(t, "manypos"), Kind: "unknown-template",
			Set: wire.Set{Kind: "raw", RawID: freshID(), RawBody: []byte{byte(i), 1, 2, 3}}})
	}
	for i := 0; i < n; i++ {
		in := c09Ins{Pos: rapid.IntRange(0, len(c.Sc.Main.Sets)).Draw(t, "pos")}
		// data for a template that this very message announces only later: unknown (and skipped) where it
		// stands, and it must not keep the later data sets of that template from being decoded
		type late struct {
			pos int
			tp  *wire.Template
		}
		var lates []late
		preKnown := map[uint16]bool{}
		for _, m := range c.Sc.Pre {
			for _, s := range m.Sets {
				for _, tp := range s.Tpls {
					preKnown[tp.ID] = true
				}
			}
		}
		for si := range c.Sc.Main.Sets {
			s := &c.Sc.Main.Sets[si]
			if s.Kind == "tpl" || s.Kind == "opt" {
				for ti := range s.Tpls {
					if !preKnown[s.Tpls[ti].ID] {
						lates = append(lates, late{si, &s.Tpls[ti]})
					}
				}
			}
		}
		kind := rapid.IntRange(0, 5).Draw(t, "inskind")
		if kind == 5 && c.Sc.Main.Proto != "ipfix" {
			kind = 0
		}
		if kind == 3 && len(lates) == 0 {
			kind = 0
		}
		switch kind {
		case 5:
			// data for an id that was announced and then named by a field-less template record (followed by another
			// template record in the same set): a collector without template withdrawal holds a template without
			// fields for it, one with withdrawal has removed it — either way no record of it can be decoded and the
			// neighbours must not notice
			in.Kind = "withdrawn-template"
			old := env.GenTemplate(t, freshID())
			var m1, m2 wire.Msg
			env.GenHeader(t, &m1)
			env.GenHeader(t, &m2)
			k1 := "tpl"
			if old.Options {
				k1 = "opt"
			}
			m1.Sets = []wire.Set{{Kind: k1, Tpls: []wire.Template{old}}}
			other := env.GenTemplate(t, freshID())
			for try := 0; other.Options && try < 8; try++ {
				other = env.GenTemplate(t, other.ID)
			}
			other.Options = false
			other.Scope = nil
			if len(other.Fields) == 0 {
				other.Fields = []wire.Field{{ID: 4, Len: 1, Type: wire.TUint8}}
			}
			m2.Sets = []wire.Set{{Kind: "tpl", Tpls: []wire.Template{{ID: old.ID}, other}}}
			c.ExtraPre = append(c.ExtraPre, m1, m2)
			oc := old
			in.Set = env.GenDataSet(t, &oc, 3)
		case 4:
			// data naming an announced template whose records cannot fit any set (field lengths summing to more than a
			// datagram, also to more than 16 bits): nothing of it can be decoded, the neighbours must not notice
			in.Kind = "oversized-template"
			k := uint16(rapid.IntRange(1, 40).Draw(t, "wrapk"))
			lens := rapid.SampledFrom([][]uint16{{32768, 32768 + k}, {0x7fff, 0x7fff, 2 + k}, {65534, 2 + k}, {40000, 40000, k}, {16384, 16384, 16384, 16384 + k}, {65000, k}, {65534}}).Draw(t, "wraplens")
			tp := wire.Template{ID: freshID()}
			for i, l := range lens {
				tp.Fields = append(tp.Fields, wire.Field{ID: []uint16{210, 313, 314, 315, 316}[i%5], Len: l, Type: wire.TOctetArray})
			}
			var m wire.Msg
			env.GenHeader(t, &m)
			m.Sets = []wire.Set{{Kind: "tpl", Tpls: []wire.Template{tp}}}
			c.ExtraPre = append(c.ExtraPre, m)
			in.Set = wire.Set{Kind: "raw", RawID: tp.ID, RawBody: body()}
		case 3:
			l := lates[rapid.IntRange(0, len(lates)-1).Draw(t, "late")]
			// must stand before the announcing set and before any earlier announcement of the same id in Main
			first := l.pos
			for si := 0; si < l.pos; si++ {
				for _, tp := range c.Sc.Main.Sets[si].Tpls {
					if tp.ID == l.tp.ID {
						first = si
					}
				}
				if first != l.pos {
					break
				}
			}
			in.Pos = rapid.IntRange(0, first).Draw(t, "earlypos")
			in.Kind = "early-data"
			tpc := *l.tp
			in.Set = env.GenDataSet(t, &tpc, 3)
		case 0:
			in.Kind = "unknown-template"
			in.Set = wire.Set{Kind: "raw", RawID: freshID(), RawBody: body()}
		case 1:
			in.Kind = "reserved"
			in.Set = wire.Set{Kind: "raw", RawID: uint16(rapid.IntRange(4, 255).Draw(t, "reservedid")), RawBody: body()}
		default:
			in.Kind = "missing-element"
			// template with one element that is not in the model, at a drawn position among known fields
			tp := env.GenTemplate(t, freshID())
			miss := wire.Field{ID: uint16(rapid.SampledFrom(env.MissingIDs()).Draw(t, "missingid")), Len: uint16(rapid.IntRange(1, 8).Draw(t, "missinglen")), Type: wire.TUnknown}
			if tp.Options && len(tp.Scope) > 0 && rapid.Bool().Draw(t, "missinscope") {
				// the missing element is a scope field of an options template
				pos := rapid.IntRange(0, len(tp.Scope)).Draw(t, "missscopepos")
				fs := append([]wire.Field{}, tp.Scope[:pos]...)
				fs = append(fs, miss)
				tp.Scope = append(fs, tp.Scope[pos:]...)
			} else {
				pos := rapid.IntRange(0, len(tp.Fields)).Draw(t, "misspos")
				fs := append([]wire.Field{}, tp.Fields[:pos]...)
				fs = append(fs, miss)
				tp.Fields = append(fs, tp.Fields[pos:]...)
			}
			announce := func(tp wire.Template) {
				var m wire.Msg
				env.GenHeader(t, &m)
				kind := "tpl"
				if tp.Options {
					kind = "opt"
				}
				m.Sets = []wire.Set{{Kind: kind, Tpls: []wire.Template{tp}}}
				c.ExtraPre = append(c.ExtraPre, m)
			}
			tpc := tp
			if rapid.Bool().Draw(t, "missredefines") {
				// history: the id was first announced with known elements only and is then REDEFINED with the
				// template naming the missing element; the data set (well-formed under the definition in force) is
				// undecodable and must not be decoded with the superseded definition
				in.Kind = "missing-element-redefined"
				announce(env.GenTemplate(t, tp.ID))
			}
			announce(tp)
			ds := env.GenDataSet(t, &tpc, 3)
			in.Set = ds
		}
		c.Ins = append(c.Ins, in)
	}
	return c
}

// withInsertions returns M+U.
func (c *c09Case) withInsertions() wire.Msg {
	m := c.Sc.Main
	m.Sets = nil
	for i := 0; i <= len(c.Sc.Main.Sets); i++ {
		for _, in := range c.Ins {
			if in.Pos == i {
				m.Sets = append(m.Sets, in.Set)
			}
		}
		if i < len(c.Sc.Main.Sets) {
			m.Sets = append(m.Sets, c.Sc.Main.Sets[i])
		}
	}
	return m
}

func (c *c09Case) prepare() (*flowCache, []byte, error) {
	cache, addr, err := prepareScenario(&c.Sc)
	if err != nil {
		return cache, addr, err
	}
	// announcements of templates naming an element missing from the model: whether the decoder reports them,
	// caches them or drops them is not this property's matter (the inserted set is undecodable either way)
	for i := range c.ExtraPre {
		if _, perr := cache.decodeFlow(addr, c.ExtraPre[i].Bytes()); perr != nil {
			return cache, addr, fmt.Errorf("announcement of a template naming an unknown element: %v", perr)
		}
	}
	return cache, addr, nil
}

func recordsPrefix(p, full []wire.DecodedRecord) string {
	if len(p) > len(full) {
		return fmt.Sprintf("%d records from the cut datagram, the complete datagram yields %d", len(p), len(full))
	}
	want := make([]wire.ExpRecord, len(p))
	for i := range p {
		want[i] = wire.ExpRecord(full[i])
	}
	return wire.CompareRecords(p, want)
}

func runC09(c *c09Case) (v verdict, sig string, err error) {
	for _, in := range c.Ins {
		if in.Pos < 0 || in.Pos > len(c.Sc.Main.Sets) {
			return v, "", fmt.Errorf("bad case: insertion position")
		}
	}
	// classification
	nrec := 0
	dataIdx := []int{}
	for i, s := range c.Sc.Main.Sets {
		if s.Kind == "data" {
			nrec += len(s.Recs)
			dataIdx = append(dataIdx, i)
		}
	}
	sandwich := false
	for _, in := range c.Ins {
		before, after := false, false
		for _, d := range dataIdx {
			if d < in.Pos {
				before = true
			} else {
				after = true
			}
		}
		if before && after {
			sandwich = true
		}
		v.label(true, "ins-"+in.Kind)
	}
	v.label(sandwich, "U-between-data-sets")
	v.label(len(c.Ins) == 0, "no-insertion")
	v.label(true, "proto-"+c.Sc.Main.Proto)
	v.NT = nrec >= 1

	// (a) insertion
	base := c.Sc.Main.Bytes()
	if len(base) > 65507 {
		return v, "", nil // does not fit a datagram: outside the domain
	}
	cache, addr, e := c.prepare()
	if e != nil {
		return v, "announce", e
	}
	r0, perr := cache.decodeFlow(addr, base)
	if perr != nil {
		return v, "panic", perr
	}
	if r0.Nil || r0.Err != nil {
		return v, "base", fmt.Errorf("well-formed message rejected: nil=%v err=%v", r0.Nil, r0.Err)
	}
	mu := c.withInsertions()
	withU := mu.Bytes()
	if len(withU) > 65507 {
		return v, "", nil
	}
	var r1 flowResult
	if len(c.Ins) > 0 {
		cache, addr, _ = c.prepare()
		r1, perr = cache.decodeFlow(addr, withU)
		if perr != nil {
			return v, "panic", perr
		}
		if r1.Nil {
			return v, "lost", fmt.Errorf("message with %d undecodable set(s) inserted was dropped entirely: %v", len(c.Ins), r1.Err)
		}
		want := make([]wire.ExpRecord, len(r0.Recs))
		for i := range r0.Recs {
			want[i] = wire.ExpRecord(r0.Recs[i])
		}
		if d := wire.CompareRecords(r1.Recs, want); d != "" {
			return v, "neighbours", fmt.Errorf("records change when undecodable sets are inserted: %s", d)
		}
		needErr := false
		for _, in := range c.Ins {
			// C04: data for a template the exporter has not announced is reported as unknown
			// (an empty set carries no data and need not be reported)
			if in.Kind == "unknown-template" && len(in.Set.RawBody) > 0 {
				needErr = true
			}
		}
		if needErr && r1.Err == nil {
			return v, "silent", fmt.Errorf("data set with an unknown template is not reported (error is nil)")
		}
	}
	// (b) truncation at every offset, of M and of M+U
	n := 0
	for which, full := range [][]byte{base, withU} {
		if which == 1 && len(c.Ins) == 0 {
			break
		}
		fullRecs := r0.Recs
		if which == 1 {
			fullRecs = r1.Recs
		}
		for k := 0; k <= len(full); k++ {
			cache, addr, _ = c.prepare()
			rp, perr := cache.decodeFlow(addr, full[:k:k])
			n++
			if perr != nil {
				return v, "panic", fmt.Errorf("cut at octet %d of %d: %v", k, len(full), perr)
			}
			if rp.Nil {
				continue
			}
			if d := recordsPrefix(rp.Recs, fullRecs); d != "" {
				return v, "fabricated", fmt.Errorf("datagram cut at octet %d of %d (with insertions: %v): %s", k, len(full), which == 1, d)
			}
		}
	}
	truncations += n
	return v, "", nil
}

var truncations int

func TestC09(t *testing.T) {
	installEnterprise()
	col := getCollector("C09", c09Rule)
	runRegress(t, "C09")
	envs := map[string]*wire.GenEnv{"ipfix": wire.NewGenEnv("ipfix"), "nf9": wire.NewGenEnv("nf9")}
	rapid.Check(t, func(t *rapid.T) {
		proto := rapid.SampledFrom([]string{"ipfix", "nf9"}).Draw(t, "proto")
		c := genC09(t, envs[proto])
		v, sig, err := runC09(&c)
		col.report(t, mustJSON(c), v, sig, err)
	})
	col.addExtra("truncation_offsets_enumerated", truncations)
}

func init() {
	registerReplay("C09", func(raw json.RawMessage) error {
		installEnterprise()
		var c c09Case
		if err := json.Unmarshal(raw, &c); err != nil {
			return err
		}
		_, _, err := runC09(&c)
		return err
	})
}
