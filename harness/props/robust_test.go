package props

// C01 — no datagram, however malformed, can crash the collector.
// C02 — decoding work and memory are bounded by the datagram's size.
//
// Both run histories of datagrams (valid, mutated, adversarially structured, raw) through the exact
// calls a worker makes: Decode + JSONMarshal (IPFIX / NetFlow v9 / v5), SFDecode + json.Marshal (sFlow),
// against one template cache per history.

import (
	"bytes"
	"encoding/json"
	"fmt"
	"os"
	"path/filepath"
	"runtime"
	"sync"
	"sync/atomic"
	"syscall"
	"testing"
	"time"

	netflow5 "github.com/EdgeCast/vflow/netflow/v5"
	"pgregory.net/rapid"
	"verif/harness/wire"
)

type rbItem struct {
	Exp  int      `json:"exp"`
	Data wire.Hex `json:"data"`
	Note string   `json:"note,omitempty"`
}

type rbCase struct {
	Proto     string     `json:"proto"`
	Exporters []wire.Hex `json:"exporters"`
	Items     []rbItem   `json:"items"`
}

// ---------------------------------------------------------------- generator

func genRobust(t *rapid.T, proto string, envs map[string]*wire.GenEnv, amplify bool) rbCase {
	c := rbCase{Proto: proto}
	ne := rapid.IntRange(1, 3).Draw(t, "nexp")
	for i := 0; i < ne; i++ {
		c.Exporters = append(c.Exporters, wire.GenExporter(t))
	}
	n := rapid.IntRange(1, 12).Draw(t, "nitems")
	var ids []uint16 // template ids in use in this history
	type knownT struct {
		exp int
		tp  wire.Template
	}
	var known []knownT // templates announced so far (by exporter)
	maxLen := 1500
	big := !amplify && rapid.IntRange(0, 19).Draw(t, "big") == 0
	if big {
		maxLen = 65507
	}
	add := func(exp int, b []byte, note string) {
		if len(b) > maxLen {
			b = b[:maxLen]
			note += "+clip"
		}
		c.Items = append(c.Items, rbItem{Exp: exp, Data: b, Note: note})
	}
	for len(c.Items) < n {
		exp := rapid.IntRange(0, ne-1).Draw(t, "exp")
		kind := rapid.IntRange(0, 9).Draw(t, "kind")
		if kind == 9 && len(c.Items) > 0 {
			prev := c.Items[rapid.IntRange(0, len(c.Items)-1).Draw(t, "replayidx")]
			add(exp, prev.Data, "replay")
			continue
		}
		if kind == 8 {
			ver := map[string][]byte{"ipfix": {0, 10}, "nf9": {0, 9}, "nf5": {0, 5}, "sflow": {0, 0, 0, 5}}[proto]
			nb := rapid.OneOf(rapid.IntRange(0, 40), rapid.IntRange(0, 300)).Draw(t, "rawlen")
			add(exp, append(append([]byte{}, ver...), rapid.SliceOfN(rapid.Byte(), nb, nb).Draw(t, "raw")...), "raw")
			continue
		}
		mutate := kind >= 2 // 0,1 valid; 2..7 mutated / weird
		switch proto {
		case "ipfix", "nf9":
			env := envs[proto]
			if len(known) > 0 && rapid.IntRange(0, 11).Draw(t, "restart") == 0 {
				// collector restart: the template cache is written to its file and loaded back (whatever earlier
				// payloads installed is now what the loader makes of it), then data for a known template arrives
				c.Items = append(c.Items, rbItem{Exp: exp, Note: "restart"})
				k := known[rapid.IntRange(0, len(known)-1).Draw(t, "afterrestart")]
				var d wire.Msg
				env.GenHeader(t, &d)
				tp := k.tp
				d.Sets = []wire.Set{env.GenDataSet(t, &tp, 3)}
				add(k.exp, d.Bytes(), "valid")
				continue
			}
			if kind >= 5 && kind <= 7 && len(known) > 0 && rapid.IntRange(0, 3).Draw(t, "zeroredef") == 0 {
				// a known template is re-announced with the same elements and field count but (some or all) lengths
				// zero / huge, then data for it follows: anything derived from the first definition is now stale
				k := known[rapid.IntRange(0, len(known)-1).Draw(t, "knownidx")]
				tp := wire.Template{ID: k.tp.ID, Options: k.tp.Options}
				allZero := rapid.Bool().Draw(t, "allzero")
				chg := func(fs []wire.Field) []wire.Field {
					var out []wire.Field
					for _, f := range fs {
						nf := f
						if allZero || rapid.Bool().Draw(t, "zerothis") {
							nf.Len = rapid.SampledFrom([]uint16{0, 0, 0, 1, 65535, 0x7fff}).Draw(t, "newlen")
						}
						out = append(out, nf)
					}
					return out
				}
				tp.Scope, tp.Fields = chg(k.tp.Scope), chg(k.tp.Fields)
				var m wire.Msg
				env.GenHeader(t, &m)
				skind := "tpl"
				if tp.Options {
					skind = "opt"
				}
				m.Sets = append(m.Sets, wire.Set{Kind: skind, Tpls: []wire.Template{tp}})
				nb := rapid.IntRange(4, 64).Draw(t, "zbody")
				dataSet := wire.Set{Kind: "raw", RawID: tp.ID, RawBody: make([]byte, nb)}
				if rapid.Bool().Draw(t, "samemsg") {
					m.Sets = append(m.Sets, dataSet)
					add(k.exp, m.Bytes(), "weird-redefine+data")
				} else {
					add(k.exp, m.Bytes(), "weird-redefine")
					var d wire.Msg
					env.GenHeader(t, &d)
					d.Sets = []wire.Set{dataSet}
					add(k.exp, d.Bytes(), "weird-data")
				}
				continue
			}
			if proto == "ipfix" && kind >= 5 && kind <= 7 && rapid.IntRange(0, 9).Draw(t, "nested") == 0 {
				// several message headers in one datagram whose length fields disagree with the sets behind them: every
				// block is a message header announcing 24 octets followed by a data set header whose length runs to the
				// end of the datagram; whatever a decoder makes of "messages inside messages", it must not emit the same
				// octets as records again and again
				id := uint16(300 + len(c.Items))
				tp := wire.Template{ID: id, Fields: []wire.Field{{ID: 4, Len: 1, Type: wire.TUint8}}}
				var a wire.Msg
				env.GenHeader(t, &a)
				a.Sets = []wire.Set{{Kind: "tpl", Tpls: []wire.Template{tp}}}
				add(exp, a.Bytes(), "valid-announce")
				nb := rapid.SampledFrom([]int{2, 5, 30, 58}).Draw(t, "nblocks")
				if big {
					nb = rapid.SampledFrom([]int{58, 300, 1300}).Draw(t, "nblocksbig")
				}
				hl := uint16(rapid.SampledFrom([]int{24, 24, 16, 20, 28}).Draw(t, "blocklen"))
				total := nb*24 + 8
				b := make([]byte, 0, total)
				for i := 0; i < nb; i++ {
					rest := total - len(b) - 16
					b = append(b, 0, 10, byte(hl>>8), byte(hl), 0, 0, 0, 1, 0, 0, 0, byte(i), 0, 0, 0, 0)
					b = append(b, byte(id>>8), byte(id), byte(rest>>8), byte(rest), 1, 2, 3, 4)
				}
				b = append(b, 9, 9, 9, 9, 9, 9, 9, 9)
				add(exp, b, "weird-nested-messages")
				continue
			}
			if kind >= 5 && kind <= 7 && rapid.IntRange(0, 7).Draw(t, "tinysets") == 0 {
				// as many minimal sets as fit: every one costs the decoder an error (unknown template, reserved id) or a
				// skip; whatever is kept per set must stay proportional to the octets, not to their square
				var m wire.Msg
				env.GenHeader(t, &m)
				nt := rapid.SampledFrom([]int{40, 100, 200, 360}).Draw(t, "ntiny")
				if big {
					nt = rapid.SampledFrom([]int{360, 2000, 8000, 16000}).Draw(t, "ntinybig")
				}
				bodyLen := rapid.SampledFrom([]int{0, 0, 1, 4}).Draw(t, "tinybody")
				for i := 0; i < nt; i++ {
					id := uint16(256 + i%500)
					if rapid.IntRange(0, 9).Draw(t, "tinyreserved") == 0 {
						id = uint16(4 + i%250)
					}
					m.Sets = append(m.Sets, wire.Set{Kind: "raw", RawID: id, RawBody: make([]byte, bodyLen)})
				}
				add(exp, m.Bytes(), "weird-many-tiny-sets")
				continue
			}
			if kind >= 5 && kind <= 7 {
				// adversarially structured message
				var m wire.Msg
				env.GenHeader(t, &m)
				ns := rapid.IntRange(1, 4).Draw(t, "wsets")
				for i := 0; i < ns; i++ {
					switch rapid.IntRange(0, 2).Draw(t, "wset") {
					case 0:
						m.Sets = append(m.Sets, env.WeirdTemplateSet(t, ids))
					case 1:
						m.Sets = append(m.Sets, wire.WeirdDataSet(t, ids))
					default:
						id := wire.GenTemplateID(t)
						tp := env.GenTemplate(t, id)
						ids = append(ids, id)
						known = append(known, knownT{exp, tp})
						m.Sets = append(m.Sets, wire.Set{Kind: map[bool]string{false: "tpl", true: "opt"}[tp.Options], Tpls: []wire.Template{tp}})
						m.Sets = append(m.Sets, env.GenDataSet(t, &tp, 6))
					}
				}
				if rapid.IntRange(0, 5).Draw(t, "msglen") == 0 {
					m.LenDelta = rapid.SampledFrom([]int{-16, -1, 1, 100}).Draw(t, "msglendelta")
				}
				b := m.Bytes()
				note := "weird"
				if kind == 7 {
					b, note = wire.Mutate(t, b, m.StructuralOffsets(), 2, nil)
					note = "weird+" + note
				}
				add(exp, b, note)
				continue
			}
			sc := env.GenScenario(t, 3, 6)
			for i := range sc.Main.Sets {
				if sc.Main.Sets[i].Kind == "data" {
					ids = append(ids, sc.Main.Sets[i].Tpl.ID)
					known = append(known, knownT{exp, *sc.Main.Sets[i].Tpl})
				}
			}
			for i := range sc.Pre {
				add(exp, sc.Pre[i].Bytes(), "valid-announce")
			}
			b := sc.Main.Bytes()
			note := "valid"
			if mutate {
				var other []byte
				if len(c.Items) > 0 {
					other = c.Items[rapid.IntRange(0, len(c.Items)-1).Draw(t, "otheridx")].Data
				}
				nm := rapid.IntRange(1, 3).Draw(t, "nmut")
				note = ""
				offs := sc.Main.StructuralOffsets()
				for k := 0; k < nm; k++ {
					var nn string
					b, nn = wire.Mutate(t, b, offs, 2, other)
					note += "mut:" + nn + " "
				}
			}
			if big && rapid.Bool().Draw(t, "bigtail") {
				nb := rapid.IntRange(1500, 64000).Draw(t, "bigtaillen")
				tail := make([]byte, nb)
				seed := rapid.SliceOfN(rapid.Byte(), 1, 16).Draw(t, "bigseed")
				for i := range tail {
					tail[i] = seed[i%len(seed)]
				}
				b = append(b, tail...)
				note += "+bigtail"
			}
			add(exp, b, note)
		case "nf5":
			p := wire.GenNF5(t)
			b := p.Bytes()
			note := "valid-or-boundary"
			if mutate {
				b, note = wire.Mutate(t, b, []int{0, 2}, 2, nil)
			}
			add(exp, b, note)
		case "sflow":
			d := wire.GenSFDatagram(t)
			note := "valid"
			if mutate && rapid.IntRange(0, 2).Draw(t, "cutheader") == 0 {
				// sampled headers cut at a drawn octet (inside the Ethernet, IP or transport header)
				for si := range d.Samples {
					if f := d.Samples[si].Flow; f != nil {
						for ri := range f.Recs {
							if f.Recs[ri].Raw != nil {
								n := len(f.Recs[ri].Raw.Pkt.Bytes())
								if n > 80 {
									n = 80
								}
								f.Recs[ri].Raw.Cut = 1 + rapid.IntRange(0, n).Draw(t, "cutat")
								note = "cut-sampled-header"
							}
						}
					}
				}
			}
			if mutate && rapid.IntRange(0, 2).Draw(t, "weirdl4") == 0 {
				// sampled packets of protocols the collector has no transport decoder for, IPv6 extension-header chains
				for si := range d.Samples {
					if f := d.Samples[si].Flow; f != nil {
						for ri := range f.Recs {
							if f.Recs[ri].Raw != nil {
								if rapid.IntRange(0, 3).Draw(t, "weirdl2") == 0 {
									wire.WeirdL2(t, &f.Recs[ri].Raw.Pkt)
								} else {
									wire.WeirdL4(t, &f.Recs[ri].Raw.Pkt)
								}
								note = "weird-l4"
							}
						}
					}
				}
			}
			b := d.Bytes()
			if mutate && (note == "valid" || rapid.Bool().Draw(t, "mutatetoo")) {
				nm := rapid.IntRange(1, 3).Draw(t, "nmut")
				if note == "valid" {
					note = ""
				} else {
					note += " "
				}
				offs := d.StructuralOffsets()
				for k := 0; k < nm; k++ {
					var nn string
					var other []byte
					if len(c.Items) > 0 {
						other = c.Items[len(c.Items)-1].Data
					}
					b, nn = wire.Mutate(t, b, offs, 4, other)
					note += "mut:" + nn + " "
				}
			}
			add(exp, b, note)
		}
	}
	return c
}

// ---------------------------------------------------------------- watchdog (C02)

type inflightT struct {
	prop  string
	data  []byte // case JSON
	start time.Time
	heap0 uint64
	cpu0  time.Duration // processor time this process had used when the call began
}

var (
	inflight     atomic.Pointer[inflightT]
	watchdogOnce sync.Once
)

// A call that does not terminate burns processor time; a machine that is busy with other things only makes the wall
// clock run. The limit is therefore on the processor time the process uses while the call is under way (the test
// goroutine is the only busy one); the wall clock is consulted only for a call that sits blocked for a quarter of an hour.
const (
	watchdogTime    = 20 * time.Second // processor time
	watchdogBlocked = 15 * time.Minute // wall clock
	watchdogHeap    = 1 << 30
)

func processCPU() time.Duration {
	var ru syscall.Rusage
	if syscall.Getrusage(syscall.RUSAGE_SELF, &ru) != nil {
		return 0
	}
	return time.Duration(ru.Utime.Nano() + ru.Stime.Nano())
}

func startWatchdog() {
	watchdogOnce.Do(func() {
		go func() {
			for {
				time.Sleep(200 * time.Millisecond)
				in := inflight.Load()
				if in == nil {
					continue
				}
				var ms runtime.MemStats
				runtime.ReadMemStats(&ms)
				el := time.Since(in.start)
				used := processCPU() - in.cpu0
				grown := ms.HeapAlloc > in.heap0 && ms.HeapAlloc-in.heap0 > watchdogHeap
				if used > watchdogTime || el > watchdogBlocked || grown {
					if inflight.Load() != in {
						continue
					}
					msg := fmt.Sprintf("a single decode call is still running after %.1fs of processor time (%.1fs of wall clock) with the heap grown by %d MiB (limits: %s of processor time, %d MiB): the call does not terminate or its memory is not bounded by the datagram",
						used.Seconds(), el.Seconds(), (ms.HeapAlloc-in.heap0)>>20, watchdogTime, watchdogHeap>>20)
					p := ""
					if *flagReplay != "" {
						dir := filepath.Join(*flagReplay, in.prop)
						os.MkdirAll(dir, 0o755)
						p = filepath.Join(dir, fmt.Sprintf("fail-%s.json", *flagShard))
						rf := replayFile{Property: in.prop, Kind: "watchdog", Message: msg, Case: in.data}
						b, _ := json.MarshalIndent(rf, "", " ")
						os.WriteFile(p, b, 0o644)
					}
					fmt.Printf("WATCHDOG property=%s %s (replay %s)\n", in.prop, msg, p)
					os.Exit(3)
				}
			}
		}()
	})
}

// allocBytes returns the cumulative bytes allocated. runtime.ReadMemStats flushes the per-P allocation
// caches first, so the difference of two readings is exact; the cheaper runtime/metrics counter lags by up to
// several hundred KiB of not yet flushed allocations and attributed them to the wrong datagram (it raised a
// false alarm inside the native fuzz target).
func allocBytes() uint64 {
	var ms runtime.MemStats
	runtime.ReadMemStats(&ms)
	return ms.TotalAlloc
}

// ---------------------------------------------------------------- execution

type rbStats struct {
	decoded, rejected, errMid, tplUsed, published int
	records, fields                               int
	maxAllocRatio                                 float64
}

// Allocation bound of C02: c0 + c1*octets + c2*decoded fields (see DESIGN.md, C02).
const (
	allocC0 = 16 << 10
	allocC1 = 1536
	allocC2 = 1536
)

// processOne runs one datagram exactly as the worker does and applies the per-datagram oracles.
func processOne(proto string, cache *flowCache, addr []byte, b []byte, bounds bool, st *rbStats) (sig string, err error) {
	a0 := uint64(0)
	if bounds {
		a0 = allocBytes()
	}
	records, fields := 0, 0
	switch proto {
	case "ipfix", "nf9":
		res, perr := cache.decodeFlow(wire.ExactIP(addr), b)
		if perr != nil {
			return "panic", perr
		}
		switch {
		case res.Nil:
			st.rejected++
		case res.Err != nil:
			st.errMid++
		default:
			st.decoded++
		}
		if !res.Nil {
			records = len(res.Recs)
			for _, r := range res.Recs {
				fields += len(r)
			}
			if records > 0 {
				st.tplUsed++
				_, _, mperr := res.marshal()
				if mperr != nil {
					return "panic", mperr
				}
				st.published++
			}
		}
	case "nf5":
		var perr error
		func() {
			defer func() {
				if r := recover(); r != nil {
					perr = fmt.Errorf("netflow v5 decoder panicked: %v", r)
				}
			}()
			m, derr := netflow5.NewDecoder(wire.ExactIP(addr), b).Decode()
			if m == nil {
				st.rejected++
				return
			}
			if derr != nil {
				st.errMid++
			} else {
				st.decoded++
			}
			records = len(m.Flows)
			fields = records * 20
			if m.Flows != nil {
				if _, e := m.JSONMarshal(new(bytes.Buffer)); e == nil {
					st.published++
				}
			}
		}()
		if perr != nil {
			return "panic", perr
		}
	case "sflow":
		d, derr, perr := decodeSFlow(b, nil)
		if perr != nil {
			return "panic", perr
		}
		if d == nil {
			st.rejected++
		} else {
			if derr != nil {
				st.errMid++
			} else {
				st.decoded++
			}
			records = len(d.Samples) + len(d.Counters)
			fields = records * 8
			if derr == nil && records > 0 {
				var jperr error
				func() {
					defer func() {
						if r := recover(); r != nil {
							jperr = fmt.Errorf("json.Marshal of the decoded datagram panicked: %v", r)
						}
					}()
					json.Marshal(d)
				}()
				if jperr != nil {
					return "panic", jperr
				}
				st.published++
			}
		}
	}
	st.records += records
	st.fields += fields
	if bounds {
		if records > len(b) {
			return "records", fmt.Errorf("%d records emitted for a datagram of %d octets", records, len(b))
		}
		da := allocBytes() - a0
		limit := uint64(allocC0 + allocC1*len(b) + allocC2*fields)
		if r := float64(da) / float64(limit); r > st.maxAllocRatio {
			st.maxAllocRatio = r
		}
		if da > limit {
			return "alloc", fmt.Errorf("decoding a datagram of %d octets (%d records, %d fields) allocated %d bytes, bound %d: allocation driven by a wire length/count field", len(b), records, fields, da, limit)
		}
	}
	return "", nil
}

func runRobust(prop string, c *rbCase, bounds bool) (v verdict, sig string, err error) {
	startWatchdog()
	cj := mustJSON(c)
	var cache *flowCache
	if c.Proto == "ipfix" || c.Proto == "nf9" {
		cache = newFlowCache(c.Proto)
	}
	var st rbStats
	var ms runtime.MemStats
	mutated := false
	for i, it := range c.Items {
		if it.Exp < 0 || it.Exp >= len(c.Exporters) {
			return v, "", fmt.Errorf("bad case: exporter index")
		}
		if it.Note != "valid" && it.Note != "valid-announce" && it.Note != "valid-or-boundary" && it.Note != "restart" {
			mutated = true
		}
		if i%4 == 0 {
			runtime.ReadMemStats(&ms)
		}
		if it.Note == "restart" {
			if cache != nil {
				var e error
				if cache, e = restartCache(c.Proto, cache); e != nil {
					sig, err = "restart", fmt.Errorf("item %d (restart: cache dumped and loaded back): %v", i, e)
					break
				}
				v.label(true, "restart-in-history")
			}
			continue
		}
		inflight.Store(&inflightT{prop: prop, data: cj, start: time.Now(), heap0: ms.HeapAlloc, cpu0: processCPU()})
		sig, err = processOne(c.Proto, cache, c.Exporters[it.Exp], it.Data, bounds, &st)
		inflight.Store(nil)
		if err != nil {
			err = fmt.Errorf("datagram %d (%s, %d octets): %v", i, it.Note, len(it.Data), err)
			break
		}
	}
	v.label(true, "proto-"+c.Proto)
	v.label(st.rejected > 0, "rejected-at-header")
	v.label(st.errMid > 0, "error-mid-way")
	v.label(st.decoded > 0, "decoded-clean")
	v.label(st.tplUsed > 0, "template-used")
	v.label(st.published > 0, "published")
	v.label(len(c.Exporters) > 1, "multi-exporter")
	big := false
	for _, it := range c.Items {
		if len(it.Data) > 1500 {
			big = true
		}
	}
	v.label(big, "datagram>1500")
	if bounds {
		getCollector(prop, "").setMax("max_alloc_over_bound_permille", int(st.maxAllocRatio*1000))
	}
	// non-trivial: a mutated datagram got past header validation (reached set / sample parsing)
	v.NT = mutated && (st.errMid > 0 || st.decoded > 0)
	return v, sig, err
}

// restartCache writes the cache to a file and loads it back through the real loader, as a restart does.
func restartCache(proto string, cache *flowCache) (out *flowCache, err error) {
	work := os.Getenv("VERIF_WORK")
	if work == "" {
		work = os.TempDir()
	}
	f, e := os.CreateTemp(work, "rbcache-*")
	if e != nil {
		return cache, nil // rig trouble: keep going with the cache as it is
	}
	name := f.Name()
	f.Close()
	defer os.Remove(name)
	func() {
		defer func() {
			if r := recover(); r != nil {
				err = fmt.Errorf("Dump panicked: %v", r)
			}
		}()
		cache.dump(name)
	}()
	if err != nil {
		return cache, err
	}
	out, perr := safeLoad(proto, name)
	if perr != nil {
		return cache, perr
	}
	return out, nil
}

var robustProtos = []string{"ipfix", "nf9", "nf5", "sflow"}

func robustEnvs() map[string]*wire.GenEnv {
	installEnterprise()
	envs := map[string]*wire.GenEnv{"ipfix": wire.NewGenEnv("ipfix"), "nf9": wire.NewGenEnv("nf9")}
	envs["ipfix"].Big, envs["nf9"].Big = true, true
	return envs
}

const c01Rule = "case = history of 1..12 datagrams of one protocol (ipfix | nf9 | nf5 | sflow) from 1..3 exporters (4-byte, IPv4-mapped, IPv6), each datagram drawn from: " +
	"valid (structured generators, incl. template announcements), valid-then-mutated (1..3 of: set a structural 16/32-bit length/count/type field to a boundary value, truncate, extend, splice, bit flip, duplicate/delete a range), " +
	"collector restarts in between (template cache dumped to a file and loaded back through the real loader, then data for a known template), adversarially structured (templates with 0 fields, zero-length / huge / variable-length fields on any type, disagreeing counts, ids < 256; known templates re-announced with the same elements but zero / huge lengths and then used; sets with reserved ids and arbitrary bodies), raw bytes behind a valid version word, replays of earlier datagrams; " +
	"executed exactly as a worker does (Decode + JSONMarshal / SFDecode + json.Marshal) against one fresh template cache per history; oracle = no panic and the call returns (watchdog); " +
	"non-trivial = the history holds a mutated/weird datagram and some datagram got past header validation into set/sample parsing; distinct by hash"

const c02Rule = "case = history as in C01 (biased to amplification: zero-length fields, counts/lengths beyond the remaining octets, reserved set ids) with datagrams up to 1500 octets (5% of histories up to 65507 without amplifying templates); " +
	"oracle per datagram = (a) the decode+encode call returns: a watchdog reports a call still running after 20 s or a heap grown by 1 GiB; (b) records emitted <= octets of the datagram; " +
	"(c) bytes allocated by the call <= 16 KiB + 1536*octets + 1536*decoded fields (proportional to octets received and output produced, never to a wire length/count field); " +
	"non-trivial = as C01; distinct by hash"

func TestC01(t *testing.T) {
	col := getCollector("C01", c01Rule)
	runRegress(t, "C01")
	envs := robustEnvs()
	rapid.Check(t, func(t *rapid.T) {
		proto := rapid.SampledFrom(robustProtos).Draw(t, "proto")
		c := genRobust(t, proto, envs, false)
		v, sig, err := runRobust("C01", &c, false)
		col.report(t, mustJSON(c), v, sig, err)
	})
}

func TestC02(t *testing.T) {
	col := getCollector("C02", c02Rule)
	runRegress(t, "C02")
	envs := robustEnvs()
	maxRatio := 0.0
	rapid.Check(t, func(t *rapid.T) {
		proto := rapid.SampledFrom(robustProtos).Draw(t, "proto")
		c := genRobust(t, proto, envs, true)
		v, sig, err := runRobust("C02", &c, true)
		col.report(t, mustJSON(c), v, sig, err)
	})
	_ = maxRatio
}

func init() {
	for _, p := range []string{"C01", "C02"} {
		prop := p
		registerReplay(prop, func(raw json.RawMessage) error {
			installEnterprise()
			var c rbCase
			if err := json.Unmarshal(raw, &c); err != nil {
				return err
			}
			_, _, err := runRobust(prop, &c, prop == "C02")
			return err
		})
	}
}
