package props

// C16 — mirrored datagrams reach the third-party collector unchanged.
// The real worker (copy into a pooled buffer, queue for mirroring) and the real mirror function run in the
// package-main driver; the IP packets it emits are captured with an AF_PACKET socket on the loopback interface.

import (
	"bytes"
	"encoding/binary"
	"encoding/hex"
	"encoding/json"
	"fmt"
	"net"
	"os"
	"sort"
	"strconv"
	"strings"
	"syscall"
	"testing"
	"time"
	"unsafe"

	"pgregory.net/rapid"
	"verif/harness/wire"
)

type c16Case struct {
	Proto   string `json:"proto"` // ipfix | sflow
	UDPSize int    `json:"udpsize"`
	// OtherUDPSize is the max-udp-size of the other three protocols (0 = the same): the settings are independent
	OtherUDPSize int        `json:"other_udpsize,omitempty"`
	Workers      int        `json:"workers"`
	Exporter     wire.Hex   `json:"exporter"` // IPv4, 4 or 16 octets
	Target       wire.Hex   `json:"target"`   // 127.x.y.z
	Port         int        `json:"port"`
	Payloads     []wire.Hex `json:"payloads"`
	// Flood > 0: the phase additionally carries this many small valid IPFIX messages (more than the mirror
	// queue's 1000 slots, which fill while the phase runs); packet-per-datagram exactness is then not required,
	// only: nothing corrupted, nothing twice, and published(mirror on) == published(mirror off)
	Flood int `json:"flood,omitempty"`
	// Toggle ("off-on" | "on-off", ipfix): a further run in which templates are learned in one request under the
	// first mirror setting and data for them arrives in a second request (template cache kept, as over a restart
	// with a cache file) under the other setting: mirroring must not change what is decoded and published
	Toggle string `json:"toggle,omitempty"`
	// Carry: indexes of payloads (arbitrary octets, even length >= 4) whose last two octets are set at run time so
	// that the 32-bit one's-complement sum over pseudo header, UDP header and payload has 0xffff in its low half:
	// folding it needs two end-around carries (the classic slip of checksum code)
	Carry []int `json:"carry,omitempty"`
	// ExporterIsTarget: the exporter's address is the mirror target's own address (a collector that also exports,
	// or a mirror pointed back at a source): the IP source must still be the exporter's
	ExporterIsTarget bool `json:"exporter_is_target,omitempty"`
	// MirrorWorkers > 0: the queued datagrams go through the real dispatcher with that many mirror workers sharing
	// its queue (the collector's default is 5) instead of through a single mirror function
	MirrorWorkers int `json:"mirror_workers,omitempty"`
	// Quiet: payload index -> milliseconds without traffic before that datagram; the dispatcher and its mirror
	// workers run while the phase does (the collector's wiring), so a mirror socket sits unused for that long
	Quiet map[int]int `json:"quiet,omitempty"`
	// SrcPorts: UDP source port of the exporter per datagram (absent: 3000+i). Any port is an exporter's good right:
	// ephemeral ones, privileged ones, the collector's own listening ports, the ports its mirror functions send from,
	// the mirror target's port
	SrcPorts []int `json:"src_ports,omitempty"`
}

const c16Rule = "case = protocol (ipfix | sflow), max-udp-size 64..65507 (biased to 1500; the other protocols' size setting drawn independently), 1..4 workers, IPv4 exporter address in 4-octet or 16-octet form, exporter source ports fixed or (half of the cases) drawn per datagram from 1..65535 incl. the collector's own listening ports, the ports its mirror functions send from and the port of the target, mirror target 127.x.y.z:port, " +
	"1..8 datagrams with lengths biased to {0, 1, size-29, size-28, size-27, size-1, size} (valid protocol messages and arbitrary octets); the real worker queues them for mirroring and the real mirror function emits them — a single one, or (half of the cases) the real dispatcher with 1..8 mirror workers sharing its queue; " +
	"oracle on the IP packets captured on lo (filtered by the run's own target address and port) = exactly one packet per datagram, version/IHL 0x45, protocol 17, source = exporter, destination = target, " +
	"IP total length = 28+n = captured length, UDP length = 8+n, destination port = configured, UDP checksum absent (0) or verifying (payloads incl. ones whose checksum needs two end-around carries), payload byte-identical; the driver survives; published payloads with mirroring on == with mirroring off, also when templates were learned under one mirror setting and the data arrives under the other (cache kept), and when a flood of > 1000 datagrams overflows the mirror queue (then only: nothing corrupted, nothing twice); " +
	"non-trivial = a payload within 28 octets of the maximum, or a 4-octet source address, or an empty payload; distinct by hash"

func htons(x uint16) uint16 { return x<<8 | x>>8 }

type capture struct {
	fd int
}

func openCapture() (*capture, error) {
	fd, err := syscall.Socket(syscall.AF_PACKET, syscall.SOCK_DGRAM, int(htons(syscall.ETH_P_IP)))
	if err != nil {
		return nil, err
	}
	ifi, err := net.InterfaceByName("lo")
	if err != nil {
		syscall.Close(fd)
		return nil, err
	}
	if err := syscall.Bind(fd, &syscall.SockaddrLinklayer{Protocol: htons(syscall.ETH_P_IP), Ifindex: ifi.Index}); err != nil {
		syscall.Close(fd)
		return nil, err
	}
	syscall.SetsockoptInt(fd, syscall.SOL_SOCKET, syscall.SO_RCVBUFFORCE, 16<<20)
	syscall.SetsockoptInt(fd, syscall.SOL_SOCKET, syscall.SO_RCVBUF, 16<<20)
	tv := syscall.Timeval{Usec: 100000}
	syscall.SetsockoptTimeval(fd, syscall.SOL_SOCKET, syscall.SO_RCVTIMEO, &tv)
	return &capture{fd: fd}, nil
}

func (c *capture) close() { syscall.Close(c.fd) }

// drops reads the kernel's drop counter of the capture socket (PACKET_STATISTICS; reading resets it).
func (c *capture) drops() int {
	var st struct{ Packets, Drops uint32 }
	l := uint32(unsafe.Sizeof(st))
	const solPacket, packetStatistics = 263, 6
	if _, _, e := syscall.Syscall6(syscall.SYS_GETSOCKOPT, uintptr(c.fd), solPacket, packetStatistics, uintptr(unsafe.Pointer(&st)), uintptr(unsafe.Pointer(&l)), 0); e != 0 {
		return 0
	}
	return int(st.Drops)
}

// collect returns the IP packets addressed to target:port seen until want packets arrived, or no matching packet
// has arrived for the quiet period 'wait' (the socket sees all loopback traffic of the machine, so the clock
// that matters is the one since the last packet of our own), at most 30 s.
func (c *capture) collect(target []byte, port int, want int, wait time.Duration) [][]byte {
	var out [][]byte
	buf := make([]byte, 70000)
	hard := time.Now().Add(30 * time.Second)
	lastOwn := time.Now()
	quiet := 0
	for time.Now().Before(hard) {
		if since := time.Since(lastOwn); since > wait || (len(out) >= want && since > 400*time.Millisecond) {
			break
		}
		n, _, err := syscall.Recvfrom(c.fd, buf, 0)
		if err != nil {
			quiet++
			if len(out) >= want && quiet >= 2 {
				break
			}
			continue
		}
		quiet = 0
		p := buf[:n]
		if n < 28 || p[9] != 17 || !bytes.Equal(p[16:20], target) {
			continue
		}
		ihl := int(p[0]&0xf) * 4
		if n < ihl+8 || int(binary.BigEndian.Uint16(p[ihl+2:])) != port {
			continue
		}
		out = append(out, append([]byte{}, p...))
		lastOwn = time.Now()
	}
	return out
}

func genC16(t *rapid.T, envs map[string]*wire.GenEnv) c16Case {
	c := c16Case{Proto: rapid.SampledFrom([]string{"ipfix", "sflow"}).Draw(t, "proto")}
	c.UDPSize = rapid.OneOf(rapid.Just(1500), rapid.SampledFrom([]int{64, 100, 512, 1500, 9000, 65507}), rapid.IntRange(64, 65507)).Draw(t, "udpsize")
	c.Workers = rapid.IntRange(1, 4).Draw(t, "workers")
	c.MirrorWorkers = rapid.SampledFrom([]int{0, 0, 0, 1, 1, 2, 5, 5, 8}).Draw(t, "mirrorworkers")
	if rapid.Bool().Draw(t, "othersize") {
		c.OtherUDPSize = rapid.SampledFrom([]int{64, 512, 1400, 1500, 9000}).Draw(t, "otherudpsize")
	}
	v4 := []byte{rapid.SampledFrom([]byte{10, 172, 192, 198, 100, 8, 127, 223}).Draw(t, "a0"), rapid.Byte().Draw(t, "a1"), rapid.Byte().Draw(t, "a2"), byte(rapid.IntRange(1, 254).Draw(t, "a3"))}
	if rapid.Bool().Draw(t, "fourbyte") {
		c.Exporter = v4
	} else {
		c.Exporter = wire.Hex(net.IPv4(v4[0], v4[1], v4[2], v4[3]).To16())
	}
	shard, _ := strconv.Atoi(os.Getenv("VERIF_SHARD_INDEX"))
	c.Target = []byte{127, byte(1 + shard%200), byte(rapid.IntRange(0, 255).Draw(t, "t2")), byte(rapid.IntRange(2, 254).Draw(t, "t3"))}
	c.Port = rapid.IntRange(1024, 65535).Draw(t, "port")
	c.ExporterIsTarget = rapid.IntRange(0, 9).Draw(t, "exporteristarget") == 0
	if c.Proto == "ipfix" && c.UDPSize >= 200 {
		c.Toggle = rapid.SampledFrom([]string{"", "", "off-on", "on-off"}).Draw(t, "toggle")
	}
	if c.Proto == "ipfix" && c.UDPSize >= 200 && rapid.IntRange(0, 15).Draw(t, "flood") == 0 {
		c.Flood = rapid.IntRange(1050, 1400).Draw(t, "floodn")
	}
	n := rapid.IntRange(1, 8).Draw(t, "npayloads")
	for i := 0; i < n; i++ {
		size := c.UDPSize
		var b []byte
		kind := rapid.IntRange(0, 9).Draw(t, "pkind")
		switch {
		case kind <= 5:
			l := rapid.SampledFrom([]int{0, 1, size - 29, size - 28, size - 27, size - 1, size, size - 20, size - 8, 28, 29}).Draw(t, "len")
			if l < 0 {
				l = 0
			}
			if l > size {
				l = size
			}
			b = make([]byte, l)
			seed := rapid.SliceOfN(rapid.Byte(), 1, 8).Draw(t, "seed")
			for j := range b {
				b[j] = seed[j%len(seed)] + byte(j/len(seed))
			}
		case kind <= 7:
			l := rapid.IntRange(0, size).Draw(t, "rlen")
			if l > 2000 {
				l = rapid.IntRange(0, 2000).Draw(t, "rlen2")
			}
			b = rapid.SliceOfN(rapid.Byte(), l, l).Draw(t, "rbytes")
		default:
			// a valid message of the protocol (so that something is decoded and published)
			if c.Proto == "ipfix" {
				// self-contained (template and data in one message) with a template id of its own: what is
				// published must not depend on the order in which several workers process the phase
				tp := envs["ipfix"].GenTemplate(t, uint16(2000+i))
				ds := envs["ipfix"].GenDataSet(t, &tp, 3)
				kind := "tpl"
				if tp.Options {
					kind = "opt"
				}
				m := wire.Msg{Proto: "ipfix", Seq: uint32(100 + i), Time: 1700000000, Sets: []wire.Set{{Kind: kind, Tpls: []wire.Template{tp}}, ds}}
				b = m.Bytes()
			} else {
				d := wire.GenSFDatagram(t)
				b = d.Bytes()
			}
			if len(b) > size {
				b = b[:size]
			}
		}
		if kind <= 7 && c.Proto == "ipfix" && len(b) >= 2 && b[0] == 0 && b[1] == 10 {
			b[1] = 11 // arbitrary octets must not happen to be an IPFIX message that installs templates
		}
		if kind <= 7 && len(b) >= 4 && len(b)%2 == 0 && rapid.Bool().Draw(t, "carry") {
			c.Carry = append(c.Carry, len(c.Payloads))
		}
		c.Payloads = append(c.Payloads, b)
	}
	if rapid.Bool().Draw(t, "srcports") {
		for range c.Payloads {
			c.SrcPorts = append(c.SrcPorts, rapid.OneOf(rapid.IntRange(1, 65535),
				rapid.SampledFrom([]int{1, 53, 1023, 1024, 4729, 4739, 6343, 9996, 8081, 32768, 55117, 55118, 55119, 60999, 65535, c.Port})).Draw(t, "srcport"))
		}
	}
	if c.Flood == 0 && len(c.Payloads) >= 2 && rapid.IntRange(0, 9).Draw(t, "quiet") == 0 {
		// quiet spells between datagrams, with the dispatcher and its workers running all the while
		if c.MirrorWorkers == 0 {
			c.MirrorWorkers = rapid.SampledFrom([]int{1, 2, 5}).Draw(t, "quietworkers")
		}
		c.Quiet = map[int]int{}
		total := 0
		for k, ns := 0, rapid.IntRange(1, 2).Draw(t, "nquiets"); k < ns; k++ {
			ms := rapid.SampledFrom([]int{700, 1200, 2200, 2600, 3100}).Draw(t, "quietms")
			if total+ms > 4500 {
				continue
			}
			total += ms
			c.Quiet[rapid.IntRange(1, len(c.Payloads)-1).Draw(t, "quietat")] += ms
		}
	}
	return c
}

// runC16 runs the case; a run whose capture socket lost packets (it sees all UDP traffic of the machine) tells nothing
// and is repeated, twice at most.
func runC16(c *c16Case) (v verdict, sig string, err error) {
	for try := 0; ; try++ {
		v, sig, err = runC16Once(c)
		if err == nil || try == 2 || !strings.Contains(err.Error(), "harness: the capture socket dropped") {
			return
		}
		time.Sleep(time.Duration(200*(try+1)) * time.Millisecond)
	}
}

func runC16Once(c *c16Case) (v verdict, sig string, err error) {
	if len(c.Exporter) != 4 && len(c.Exporter) != 16 || len(c.Target) != 4 || c.UDPSize < 1 {
		return v, "", fmt.Errorf("bad case")
	}
	if si := os.Getenv("VERIF_SHARD_INDEX"); si != "" {
		// parallel shards must not see each other's packets: the shard owns 127.<1+shard>.0.0/16
		n, _ := strconv.Atoi(si)
		c.Target = append(wire.Hex{}, c.Target...)
		c.Target[1] = byte(1 + n%200)
	}
	if c.ExporterIsTarget {
		if len(c.Exporter) == 4 {
			c.Exporter = append(wire.Hex{}, c.Target...)
		} else {
			c.Exporter = wire.Hex(net.IP(c.Target).To16())
		}
		v.label(true, "exporter-address-equals-mirror-target")
	}
	src4 := net.IP(c.Exporter).To4()
	near, empty := false, false
	for _, p := range c.Payloads {
		if len(p) > c.UDPSize {
			return v, "", fmt.Errorf("bad case: payload longer than max-udp-size")
		}
		if len(p) > c.UDPSize-28 {
			near = true
		}
		if len(p) == 0 {
			empty = true
		}
	}
	v.label(true, "proto-"+c.Proto)
	v.label(near, "payload-within-28-of-max")
	v.label(len(c.Exporter) == 4, "4-octet-source")
	v.label(empty, "empty-payload")
	v.label(c.UDPSize > 9000, "udpsize>9000")
	v.NT = near || len(c.Exporter) == 4 || empty || c.Flood > 0

	cap, e := openCapture()
	if e != nil {
		return v, "", fmt.Errorf("harness: cannot open AF_PACKET capture (CAP_NET_RAW needed): %v", e)
	}
	defer cap.close()

	payloads := append([]wire.Hex{}, c.Payloads...)
	for _, idx := range c.Carry {
		if idx < 0 || idx >= len(payloads) || len(payloads[idx]) < 4 || len(payloads[idx])%2 != 0 {
			return v, "", fmt.Errorf("bad case: carry index")
		}
		p := append(wire.Hex{}, payloads[idx]...)
		sport := map[string]int{"ipfix": 55117, "sflow": 55118}[c.Proto] // source port the mirror functions use
		sum := udpSum(src4, c.Target, sport, c.Port, p[:len(p)-2])
		binary.BigEndian.PutUint16(p[len(p)-2:], uint16(0xffff-(sum&0xffff)))
		payloads[idx] = p
		v.label(true, "checksum-double-carry-payload")
	}
	if c.Flood > 0 {
		// Flood template-only messages fill the mirror queue (1000 slots) without publishing anything, so the
		// outgoing message queue stays far from full; 60 self-contained data messages follow
		tp := wire.Template{ID: 60000, Fields: []wire.Field{{ID: 8, Len: 4, Type: wire.TIPv4}, {ID: 1, Len: 8, Type: wire.TUint64}}}
		for i := 0; i < c.Flood; i++ {
			m := wire.Msg{Proto: "ipfix", Seq: uint32(70000 + i), Time: 1700000000, Domain: 1, Sets: []wire.Set{{Kind: "tpl", Tpls: []wire.Template{tp}}}}
			payloads = append(payloads, m.Bytes())
		}
		for i := 0; i < 60; i++ {
			m := wire.Msg{Proto: "ipfix", Seq: uint32(90000 + i), Time: 1700000000, Domain: 1, Sets: []wire.Set{{Kind: "tpl", Tpls: []wire.Template{tp}},
				{Kind: "data", Tpl: &tp, Recs: []wire.Record{{Vals: []wire.Hex{{10, 9, byte(i >> 8), byte(i)}, {0, 0, 0, 0, 0, 1, byte(i >> 8), byte(i)}}}}}}}
			payloads = append(payloads, m.Bytes())
		}
	}
	v.label(c.Flood > 0, "mirror-queue-overflow")
	phase := make([]drvDatagram, 0, len(payloads))
	for i, p := range payloads {
		sp := 3000 + i%1000
		if i < len(c.SrcPorts) && c.SrcPorts[i] > 0 && c.SrcPorts[i] < 65536 {
			sp = c.SrcPorts[i]
			v.label(true, "drawn-exporter-source-ports")
		}
		d := drvDatagram{Addr: hex.EncodeToString(c.Exporter), Port: sp, Data: hex.EncodeToString(p)}
		if ms := c.Quiet[i]; ms > 0 && ms <= 10000 && c.MirrorWorkers > 0 {
			d.PauseMS = ms
			v.label(true, "quiet-spell-between-mirrored-datagrams")
		}
		phase = append(phase, d)
	}
	target := net.IP(c.Target).String()
	v.label(c.OtherUDPSize > 0 && c.OtherUDPSize < c.UDPSize, "other-protocols-smaller-udp-size")
	on := drvRequest{Op: "pipeline", Proto: c.Proto, Workers: c.Workers, UDPSize: c.UDPSize, OtherUDPSize: c.OtherUDPSize, ResetCache: true,
		Mirror: true, MirrorDst: target, MirrorPort: c.Port, MirrorWorkers: c.MirrorWorkers, MirrorLive: len(c.Quiet) > 0 && c.MirrorWorkers > 0, Phases: [][]drvDatagram{phase}}
	v.label(c.MirrorWorkers > 0, "dispatcher-with-several-mirror-workers")
	// a second phase in the same request draws its receive buffers from the pool the first phase's mirror
	// copies were returned to: 24 self-contained messages, longer than most of the first phase's payloads
	var later []wire.Hex
	if c.Proto == "ipfix" {
		for i := 0; i < 24; i++ {
			tp := wire.Template{ID: uint16(61000 + i), Fields: []wire.Field{{ID: 8, Len: 4, Type: wire.TIPv4}, {ID: 12, Len: 4, Type: wire.TIPv4}, {ID: 1, Len: 8, Type: wire.TUint64}, {ID: 2, Len: 8, Type: wire.TUint64}}}
			m := wire.Msg{Proto: "ipfix", Seq: uint32(95000 + i), Time: 1700000001, Domain: 2, Sets: []wire.Set{{Kind: "tpl", Tpls: []wire.Template{tp}},
				{Kind: "data", Tpl: &tp, Recs: []wire.Record{{Vals: []wire.Hex{{10, 8, 0, byte(i)}, {10, 9, 0, byte(i)}, {0, 0, 0, 0, 0, 0, 2, byte(i)}, {0, 0, 0, 0, 0, 0, 3, byte(i)}}}}}}}
			b := m.Bytes()
			if len(b) <= c.UDPSize {
				later = append(later, b)
			}
		}
	} else {
		for i := 0; i < 24; i++ {
			d := wire.SFDatagram{Agent: []byte{10, 0, 1, byte(i)}, Seq: uint32(95000 + i), Samples: []wire.SFSample{{Kind: "counter", Counter: &wire.SFCounter{Seq: uint32(i), Recs: []wire.SFCounterRec{{Kind: "proc", Vals: []uint64{1, 2, 3, 4, uint64(i)}}, {Kind: "vlan", Vals: []uint64{uint64(i), 2, 3, 4, 5, 6}}}}}}}
			b := d.Bytes()
			if len(b) <= c.UDPSize {
				later = append(later, b)
			}
		}
	}
	var phase2 []drvDatagram
	for i, p := range later {
		phase2 = append(phase2, drvDatagram{Addr: hex.EncodeToString(c.Exporter), Port: 5000 + i, Data: hex.EncodeToString(p)})
	}
	if len(phase2) > 0 {
		on.Phases = append(on.Phases, phase2)
		payloads = append(payloads, later...)
	}
	off := on
	off.Mirror = false
	if len(c.Quiet) > 0 {
		// the run without mirroring needs no quiet spells
		off.Phases = make([][]drvDatagram, len(on.Phases))
		for i, ph := range on.Phases {
			off.Phases[i] = append([]drvDatagram{}, ph...)
			for k := range off.Phases[i] {
				off.Phases[i][k].PauseMS = 0
			}
		}
		off.MirrorLive = false
	}

	if on.MirrorLive {
		// a dispatcher that reads the mirror queue while the phases run goes on reading it for the rest of the process:
		// such a request gets a driver process of its own
		drivers.drop(false)
		defer drivers.drop(false)
	}
	d, e := drivers.get(false, 150)
	if e != nil {
		return v, "", e
	}
	respOff, died, diag := d.call(&off)
	if died {
		drivers.drop(false)
		return v, "crash-off", fmt.Errorf("pipeline without mirroring terminated the process: %s", diag)
	}
	respOn, died, diag := d.call(&on)
	if died {
		drivers.drop(false)
		return v, "crash", fmt.Errorf("mirroring terminated the process (max-udp-size %d, payload lengths %v, source %x): %s", c.UDPSize, lens(c.Payloads), []byte(c.Exporter), diag)
	}
	if respOn.Error != "" || respOff.Error != "" {
		return v, "", fmt.Errorf("harness: driver error: %s %s", respOn.Error, respOff.Error)
	}
	if respOn.Mirror != "" {
		return v, "mirror-error", fmt.Errorf("the mirror function stopped: %s", respOn.Mirror)
	}
	if len(respOn.Phases) != len(on.Phases) || len(respOff.Phases) != len(on.Phases) {
		return v, "", fmt.Errorf("harness: driver answered %d/%d phases for %d", len(respOn.Phases), len(respOff.Phases), len(on.Phases))
	}
	mirrored := 0
	var pubOn, pubOff []string
	for i := range respOn.Phases {
		mirrored += respOn.Phases[i].Mirrored
		pubOn = append(pubOn, respOn.Phases[i].Published...)
		pubOff = append(pubOff, respOff.Phases[i].Published...)
	}
	if on.MirrorLive {
		// the live dispatcher takes the copies as they come; the driver does not count them
		mirrored = len(payloads)
	}
	if c.Flood == 0 && mirrored != len(payloads) {
		return v, "not-queued", fmt.Errorf("%d of %d datagrams were queued for mirroring", mirrored, len(payloads))
	}
	pkts := cap.collect(c.Target, c.Port, mirrored, 3*time.Second)
	capDrops := cap.drops()

	// mirroring never changes what is published
	a := append([]string{}, pubOn...)
	b := append([]string{}, pubOff...)
	if c.Proto == "sflow" {
		for i := range a {
			x, _ := hex.DecodeString(a[i])
			a[i] = normPayload("sflow", x)
		}
		for i := range b {
			x, _ := hex.DecodeString(b[i])
			b[i] = normPayload("sflow", x)
		}
	}
	sort.Strings(a)
	sort.Strings(b)
	if fmt.Sprint(a) != fmt.Sprint(b) {
		return v, "published-differs", fmt.Errorf("published payloads differ with mirroring on (%d) and off (%d)", len(a), len(b))
	}

	// packets
	want := map[string]int{}
	for _, p := range payloads {
		want[string(p)]++
	}
	for i, p := range pkts {
		n := len(p) - 28
		if p[0] != 0x45 {
			return v, "ip-header", fmt.Errorf("packet %d: version/IHL octet %#x, want 0x45", i, p[0])
		}
		if tl := int(binary.BigEndian.Uint16(p[2:])); tl != len(p) {
			return v, "ip-length", fmt.Errorf("packet %d: IP total length %d, captured %d octets", i, tl, len(p))
		}
		if !bytes.Equal(p[12:16], src4) {
			return v, "source", fmt.Errorf("packet %d: IP source %v, exporter %v", i, net.IP(p[12:16]), src4)
		}
		if ul := int(binary.BigEndian.Uint16(p[24:])); ul != 8+n {
			return v, "udp-length", fmt.Errorf("packet %d: UDP length %d for a payload of %d octets", i, ul, n)
		}
		if cs := binary.BigEndian.Uint16(p[26:]); cs != 0 {
			// a UDP checksum of 0 means "none" (IPv4); anything else must verify, or the receiving host discards the datagram
			sum := udpSum(p[12:16], p[16:20], int(binary.BigEndian.Uint16(p[20:])), int(binary.BigEndian.Uint16(p[22:])), p[28:]) + uint32(cs)
			for sum>>16 != 0 {
				sum = sum&0xffff + sum>>16
			}
			if sum != 0xffff {
				return v, "udp-checksum", fmt.Errorf("packet %d (payload %d octets): UDP checksum %#04x does not verify (the receiving host's UDP stack discards the datagram)", i, n, cs)
			}
		}
		pay := string(p[28:])
		if want[pay] == 0 {
			return v, "payload", fmt.Errorf("packet %d: payload of %d octets is not one of the datagrams sent (or was emitted twice): %.80x", i, n, pay)
		}
		want[pay]--
	}
	missing := 0
	for _, n := range want {
		missing += n
	}
	if (missing > 0 || len(pkts) != mirrored) && capDrops > 0 {
		// the capture socket itself lost packets (it sees all loopback traffic of a busy machine): inconclusive
		return v, "", fmt.Errorf("harness: the capture socket dropped %d packets, %d of %d mirrored datagrams seen", capDrops, len(pkts), mirrored)
	}
	if c.Flood > 0 {
		// the mirror queue overflowed by construction: only what was queued can be re-emitted
		if len(pkts) != mirrored {
			return v, "missing", fmt.Errorf("%d datagrams were queued for mirroring, %d packets were emitted", mirrored, len(pkts))
		}
		return v, "", nil
	}
	if missing > 0 {
		return v, "missing", fmt.Errorf("%d of %d datagrams were not re-emitted towards %s:%d (payload lengths of the first phase %v)", missing, len(payloads), target, c.Port, lens(c.Payloads))
	}
	if c.Toggle != "" && c.Proto == "ipfix" {
		if sig, err := c16Toggle(c, d, target); err != nil {
			return v, sig, err
		}
		v.label(true, "mirror-setting-changed-between-templates-and-data")
	}
	return v, "", nil
}

// c16Toggle: templates learned under one mirror setting, data under the other, cache kept in between.
func c16Toggle(c *c16Case, d *drvClient, target string) (string, error) {
	replica := newFlowCache("ipfix")
	var ann, data []drvDatagram
	want := map[string]int{}
	for i := 0; i < 6; i++ {
		tp := wire.Template{ID: uint16(62000 + i), Fields: []wire.Field{{ID: 8, Len: 4, Type: wire.TIPv4}, {ID: 7, Len: 2, Type: wire.TUint16}, {ID: 1, Len: 8, Type: wire.TUint64}}}
		a := wire.Msg{Proto: "ipfix", Seq: uint32(97000 + i), Time: 1700000002, Domain: 3, Sets: []wire.Set{{Kind: "tpl", Tpls: []wire.Template{tp}}}}
		m := wire.Msg{Proto: "ipfix", Seq: uint32(98000 + i), Time: 1700000003, Domain: 3, Sets: []wire.Set{{Kind: "data", Tpl: &tp,
			Recs: []wire.Record{{Vals: []wire.Hex{{10, 7, 0, byte(i)}, {0, byte(80 + i)}, {0, 0, 0, 0, 0, 0, 4, byte(i)}}}}}}}
		ab, mb := a.Bytes(), m.Bytes()
		if len(ab) > c.UDPSize || len(mb) > c.UDPSize {
			continue
		}
		ann = append(ann, drvDatagram{Addr: hex.EncodeToString(c.Exporter), Port: 6000 + i, Data: hex.EncodeToString(ab)})
		data = append(data, drvDatagram{Addr: hex.EncodeToString(c.Exporter), Port: 6100 + i, Data: hex.EncodeToString(mb)})
		if _, perr := replica.decodeFlow(wire.ExactIP(c.Exporter), ab); perr != nil {
			return "", fmt.Errorf("harness: %v", perr)
		}
		o, perr := sequentialDecode("ipfix", replica, c.Exporter, mb, nil)
		if perr != nil || !o.published {
			return "", fmt.Errorf("harness: reference decode of the toggle data failed: %v", perr)
		}
		want[o.payload]++
	}
	if len(ann) == 0 {
		return "", nil
	}
	first := c.Toggle == "on-off"
	reqA := drvRequest{Op: "pipeline", Proto: "ipfix", Workers: c.Workers, UDPSize: c.UDPSize, OtherUDPSize: c.OtherUDPSize, ResetCache: true,
		Mirror: first, MirrorDst: target, MirrorPort: c.Port, Phases: [][]drvDatagram{ann}}
	reqB := reqA
	reqB.ResetCache, reqB.Mirror, reqB.Phases = false, !first, [][]drvDatagram{data}
	for _, req := range []*drvRequest{&reqA, &reqB} {
		resp, died, diag := d.call(req)
		if died {
			drivers.drop(false)
			return "crash", fmt.Errorf("pipeline (mirroring %v) terminated the process: %s", req.Mirror, diag)
		}
		if resp.Error != "" || len(resp.Phases) != 1 {
			return "", fmt.Errorf("harness: driver error: %s", resp.Error)
		}
		if req == &reqB {
			got := map[string]int{}
			for _, h := range resp.Phases[0].Published {
				b, _ := hex.DecodeString(h)
				got[string(b)]++
			}
			for p, n := range want {
				if got[p] != n {
					return "toggle", fmt.Errorf("templates learned with mirroring %v, data received with mirroring %v (same cache): %d of %d data messages were published; e.g. missing %.200s",
						first, !first, len(resp.Phases[0].Published), len(data), p)
				}
			}
			if len(resp.Phases[0].Published) != len(data) {
				return "toggle", fmt.Errorf("templates learned with mirroring %v, data received with mirroring %v: %d messages published for %d datagrams", first, !first, len(resp.Phases[0].Published), len(data))
			}
		}
	}
	return "", nil
}

// udpSum: 32-bit sum of the 16-bit words of the UDP pseudo header, the UDP header with a zero checksum field and
// the payload (odd trailing octet padded with zero), not folded.
func udpSum(src, dst []byte, sport, dport int, payload []byte) uint32 {
	ulen := 8 + len(payload)
	var sum uint32
	add := func(b []byte) {
		for i := 0; i+1 < len(b); i += 2 {
			sum += uint32(b[i])<<8 | uint32(b[i+1])
		}
		if len(b)%2 == 1 {
			sum += uint32(b[len(b)-1]) << 8
		}
	}
	add(src)
	add(dst)
	sum += 17 + uint32(ulen)
	sum += uint32(sport) + uint32(dport) + uint32(ulen)
	add(payload)
	return sum
}

func lens(ps []wire.Hex) []int {
	out := make([]int, len(ps))
	for i, p := range ps {
		out[i] = len(p)
	}
	return out
}

func TestC16(t *testing.T) {
	col := getCollector("C16", c16Rule)
	col.sampler = func(cj []byte) []byte {
		var c c16Case
		if json.Unmarshal(cj, &c) != nil {
			return nil
		}
		out := map[string]interface{}{"summary": "payload octets omitted", "proto": c.Proto, "udpsize": c.UDPSize, "workers": c.Workers,
			"exporter": c.Exporter, "target": c.Target, "port": c.Port, "payload_lengths": lens(c.Payloads)}
		b, _ := json.Marshal(out)
		return b
	}
	defer drivers.stopAll()
	runRegress(t, "C16")
	envs := map[string]*wire.GenEnv{"ipfix": wire.NewGenEnv("ipfix")}
	envs["ipfix"].NoEnterprise = true
	rapid.Check(t, func(t *rapid.T) {
		c := genC16(t, envs)
		v, sig, err := runC16(&c)
		col.report(t, mustJSON(c), v, sig, err)
	})
	col.assume("raw sockets and AF_PACKET capture on lo are permitted (CAP_NET_RAW); IPv4 mirror targets only")
}

func init() {
	registerReplay("C16", func(raw json.RawMessage) error {
		defer drivers.stopAll()
		var c c16Case
		if err := json.Unmarshal(raw, &c); err != nil {
			return err
		}
		_, _, err := runC16(&c)
		return err
	})
}
