package props

// C07 — sFlow samples and counters are decoded field-for-field.
// C18 — the sFlow type filter removes exactly the listed sample types.

import (
	"encoding/json"
	"fmt"
	"os"
	"reflect"
	"strconv"
	"testing"

	"pgregory.net/rapid"
	"verif/harness/wire"
)

const c07Rule = "case = well-formed sFlow v5 datagram: IPv4/IPv6 agent, 0..8 samples in any order of flow samples, counter samples, unknown-format samples " +
	"(incl. expanded formats 3/4) and enterprise != 0 samples; flow records: raw header (protocol 1/11/12; structured Ethernet [+802.1Q] / IPv4 / IPv6 / TCP / UDP / ICMP with all header fields free, " +
	"payload so that header lengths reach 1500 and need XDR padding), extended switch, extended router (IPv4/IPv6 next hop), unknown records (incl. enterprise-qualified formats); " +
	"counter records: the six supported layouts and unknown ones; at most one record per supported kind per sample; " +
	"oracle = reference model from the sFlow v5 structures: header, agent, samples and counters in wire order, every field equal to the generated value, skipped items leave the rest undisturbed; " +
	"non-trivial = >= 2 samples with a skipped one before a decoded one, or a raw header with VLAN/IPv6/ICMP, or a counter sample with >= 2 records; distinct by hash"

func TestC07(t *testing.T) {
	col := getCollector("C07", c07Rule)
	runRegress(t, "C07")
	rapid.Check(t, func(t *rapid.T) {
		d := wire.GenSFDatagram(t)
		v, sig, err := runSFlowDecode(&d, nil)
		if err == nil && len(d.Samples) > 0 && rapid.IntRange(0, 7).Draw(t, "twins") == 0 {
			if e := concurrently(6, func() error { _, _, e := runSFlowDecode(&d, nil); return e }); e != nil {
				sig, err = "concurrent", fmt.Errorf("decoded by 6 goroutines at once: %v", e)
			}
			v.label(true, "concurrent-twins")
		}
		col.report(t, mustJSON(d), v, sig, err)
	})
}

const c18Rule = "case = well-formed sFlow v5 datagram (generator of C07) + filter list drawn from {empty, [1], [2], [1,2], unknown formats, duplicates, mixtures}; " +
	"oracle (model + metamorphic) = decode under the filter equals the reference expectation with exactly the enterprise-0 samples whose format is listed removed, " +
	"and equals the unfiltered decode of the same datagram minus those samples; non-trivial = a filtered sample precedes a kept flow/counter sample; distinct by hash"

type c18Case struct {
	// Weird: some sampled packets are of protocols the collector has no transport decoder for (outside C07's domain):
	// only the metamorphic relation is applied, and only when the unfiltered decode succeeds at all
	Weird  bool            `json:"weird,omitempty"`
	Filter []uint32        `json:"filter"`
	D      wire.SFDatagram `json:"d"`
}

func runC18(c *c18Case) (v verdict, sig string, err error) {
	if c.Weird {
		v.label(true, "undecodable-sampled-packets")
		gu, eu, p2 := decodeSFlow(c.D.Bytes(), nil)
		if p2 != nil {
			return v, "panic", p2
		}
		if gu == nil || eu != nil {
			v.label(true, "unfiltered-decode-refused")
			return v, "", nil // the datagram is refused as a whole today: the filter has nothing to be compared with
		}
		gf, ef, p1 := decodeSFlow(c.D.Bytes(), c.Filter)
		if p1 != nil {
			return v, "panic", p1
		}
		if gf == nil || ef != nil {
			return v, "metamorphic", fmt.Errorf("filter %v: the datagram decodes without the filter but is refused with it: %v", c.Filter, ef)
		}
		wantS, wantC := gu.Samples, gu.Counters
		if inFilter(c.Filter, 1) {
			wantS = wantS[:0]
		}
		if inFilter(c.Filter, 2) {
			wantC = wantC[:0]
		}
		if len(gf.Samples) != len(wantS) || len(gf.Counters) != len(wantC) || !reflect.DeepEqual(gf.Samples, wantS) && len(wantS) > 0 || !reflect.DeepEqual(gf.Counters, wantC) && len(wantC) > 0 {
			return v, "metamorphic", fmt.Errorf("filter %v (datagram with sampled packets of undecodable protocols): %d/%d samples/counters, unfiltered decode minus filtered types has %d/%d", c.Filter, len(gf.Samples), len(gf.Counters), len(wantS), len(wantC))
		}
		v.NT = true
		return v, "", nil
	}
	v, sig, err = runSFlowDecode(&c.D, c.Filter)
	nt := false
	for _, l := range v.Labels {
		if l == "filtered-before-kept" {
			nt = true
		}
	}
	v.NT = nt
	v.label(len(c.Filter) == 0, "filter-empty")
	v.label(inFilter(c.Filter, 1), "filter-flow")
	v.label(inFilter(c.Filter, 2), "filter-counter")
	if err != nil {
		return
	}
	// metamorphic: filtered decode == unfiltered decode minus the filtered samples
	gf, _, p1 := decodeSFlow(c.D.Bytes(), c.Filter)
	gu, _, p2 := decodeSFlow(c.D.Bytes(), nil)
	if p1 != nil || p2 != nil || gf == nil || gu == nil {
		return v, "panic", fmt.Errorf("decode failed: %v %v", p1, p2)
	}
	wantS, wantC := gu.Samples, gu.Counters
	if inFilter(c.Filter, 1) {
		wantS = wantS[:0]
	}
	if inFilter(c.Filter, 2) {
		wantC = wantC[:0]
	}
	if len(gf.Samples) != len(wantS) || len(gf.Counters) != len(wantC) {
		return v, "metamorphic", fmt.Errorf("filter %v: %d/%d samples/counters, unfiltered decode minus filtered types has %d/%d", c.Filter, len(gf.Samples), len(gf.Counters), len(wantS), len(wantC))
	}
	for i := range wantS {
		if !reflect.DeepEqual(gf.Samples[i], wantS[i]) {
			return v, "metamorphic", fmt.Errorf("filter %v: flow sample %d differs from the unfiltered decode", c.Filter, i)
		}
	}
	for i := range wantC {
		if !reflect.DeepEqual(gf.Counters[i], wantC[i]) {
			return v, "metamorphic", fmt.Errorf("filter %v: counter sample %d differs from the unfiltered decode", c.Filter, i)
		}
	}
	return v, "", nil
}

func genFilter(t *rapid.T) []uint32 {
	switch rapid.IntRange(0, 9).Draw(t, "filterkind") {
	case 8:
		// long lists: the entry that matters comes after several that never match
		n := rapid.IntRange(4, 12).Draw(t, "longfilter")
		f := make([]uint32, 0, n+1)
		for i := 0; i < n; i++ {
			f = append(f, uint32(3+i%7))
		}
		return append(f, rapid.SampledFrom([]uint32{1, 2}).Draw(t, "lastentry"))
	case 7:
		// an entry listed twice (a hand-edited or concatenated list) filters exactly like the entry listed once
		return rapid.SampledFrom([][]uint32{{1, 1}, {2, 2}, {1, 1, 1}, {2, 1, 2}, {1, 2, 1, 2}, {3, 3, 1}}).Draw(t, "dupfilter")
	case 0:
		return []uint32{}
	case 1:
		return []uint32{1}
	case 2:
		return []uint32{2}
	case 3:
		return []uint32{1, 2}
	case 4:
		return []uint32{2, 2, 1}
	}
	// incl. values above the 12-bit format range whose low 12 bits are a standard type (they list no type at all)
	return rapid.SliceOfN(rapid.OneOf(rapid.SampledFrom([]uint32{0, 1, 2, 3, 4, 5, 0xfff, 0x1000, 0x1001, 0x1002, 0x2001, 0xfffff001, 0xfffff002, 0xffffffff}), rapid.Uint32Range(0, 0xfff)), 0, 12).Draw(t, "filter")
}

func TestC18(t *testing.T) {
	col := getCollector("C18", c18Rule)
	runRegress(t, "C18")
	rapid.Check(t, func(t *rapid.T) {
		c := c18Case{Filter: genFilter(t), D: wire.GenSFDatagram(t)}
		// the shape that depends on skipping by the declared length: a filtered sample in front of kept ones
		if rapid.Bool().Draw(t, "prepend") {
			var pre []wire.SFSample
			if inFilter(c.Filter, 1) {
				f := wire.GenSFFlow(t)
				pre = append(pre, wire.SFSample{Kind: "flow", Flow: &f})
			}
			if inFilter(c.Filter, 2) {
				cs := wire.GenSFCounter(t)
				pre = append(pre, wire.SFSample{Kind: "counter", Counter: &cs})
			}
			for _, f := range c.Filter {
				if f != 1 && f != 2 && f <= 0xfff && rapid.Bool().Draw(t, "prependunknown") {
					pre = append(pre, wire.SFSample{Kind: "unknown", Format: f, Body: []byte{1, 2, 3, 4, 5, 6, 7, 8}})
					// an enterprise-specific sample with the same format number is NOT a listed type
					pre = append(pre, wire.SFSample{Kind: "unknown", Enterprise: 4413, Format: f, Body: []byte{9, 9, 9, 9}})
				}
			}
			c.D.Samples = append(pre, c.D.Samples...)
		}
		if rapid.IntRange(0, 7).Draw(t, "weird") == 0 {
			for si := range c.D.Samples {
				if f := c.D.Samples[si].Flow; f != nil {
					for ri := range f.Recs {
						if f.Recs[ri].Raw != nil && rapid.Bool().Draw(t, "weirdthis") {
							if rapid.IntRange(0, 3).Draw(t, "weirdl2") == 0 {
								wire.WeirdL2(t, &f.Recs[ri].Raw.Pkt)
								c.Weird = true
								continue
							}
							wire.WeirdL4(t, &f.Recs[ri].Raw.Pkt)
							c.Weird = true
						}
					}
				}
			}
		}
		v, sig, err := runC18(&c)
		col.report(t, mustJSON(c), v, sig, err)
	})
}

func init() {
	registerReplay("C07", func(raw json.RawMessage) error {
		var d wire.SFDatagram
		if err := json.Unmarshal(raw, &d); err != nil {
			return err
		}
		_, _, err := runSFlowDecode(&d, nil)
		return err
	})
	registerReplay("C18", func(raw json.RawMessage) error {
		var c c18Case
		if err := json.Unmarshal(raw, &c); err != nil {
			return err
		}
		_, _, err := runC18(&c)
		return err
	})
}

// ---------------------------------------------------------------- C18 through the real worker

const c18PipeRule = " | worker stage (TestC18Pipe): generated sFlow pipelines (generator of C12: IPv4 and IPv6 agents, mixed sizes, malformed datagrams, cross traffic, worker churn) with a non-empty filter list (in a third of the cases followed by a quiet-agent episode: one agent sends 3..40 datagrams per worker holding only samples of a listed type, then datagrams that also hold an unlisted one) run through the real " +
	"sFlowWorker of the package-main driver; oracle = the published payloads equal, one by one, the library decode of each datagram under the same filter (so nothing between the option and the decoder drops or keeps more than the filter says)"

func TestC18Pipe(t *testing.T) {
	workerStage(t, "C18", c18PipeRule, func(t *rapid.T) string { return "sflow" }, func(t *rapid.T, c *plCase) {
		for len(c.Filter) == 0 {
			c.Filter = genFilter(t)
			if len(c.Filter) == 0 {
				c.Filter = []uint32{rapid.SampledFrom([]uint32{1, 2, 9}).Draw(t, "onefilter")}
			}
		}
		if rapid.IntRange(0, 2).Draw(t, "quietagent") == 0 {
			addQuietAgentEpisode(t, c)
		}
	})
}

// addQuietAgentEpisode appends a phase in which one agent first sends a long run of datagrams that hold nothing but
// samples of a listed type (each worker sees more than a handful in a row), and then datagrams that also hold a sample
// of an unlisted type: what an agent sent before says nothing about what its next datagram holds.
func addQuietAgentEpisode(t *rapid.T, c *plCase) {
	listed := map[uint32]bool{}
	for _, f := range c.Filter {
		listed[f] = true
	}
	var quiet, other string
	switch {
	case listed[2] && !listed[1]:
		quiet, other = "counter", "flow"
	case listed[1] && !listed[2]:
		quiet, other = "flow", "counter"
	default:
		return
	}
	if len(c.Exporters) == 0 {
		return
	}
	exp := rapid.IntRange(0, len(c.Exporters)-1).Draw(t, "quietexp")
	agent := wire.Hex{10, 77, 0, byte(rapid.IntRange(1, 250).Draw(t, "quietagentaddr"))}
	sample := func(kind string, i int) wire.SFSample {
		if kind == "counter" {
			return wire.SFSample{Kind: "counter", Counter: &wire.SFCounter{Seq: uint32(i), SrcIdx: 3, Recs: []wire.SFCounterRec{{Kind: "proc", Vals: []uint64{1, 2, 3, 4, uint64(i)}}}}}
		}
		return wire.SFSample{Kind: "flow", Flow: &wire.SFFlow{Seq: uint32(i), SrcIdx: 3, Rate: 100, Pool: uint32(i), Input: 1, Output: 2,
			Recs: []wire.SFFlowRec{{Kind: "switch", Switch: []uint32{10, 0, uint32(20 + i%7), 0}}}}}
	}
	w := c.Workers
	if w < 1 {
		w = 1
	}
	run := w * rapid.SampledFrom([]int{3, 17, 24, 40}).Draw(t, "quietrun")
	if run > 700 {
		run = 700
	}
	var data []plDatagram
	for i := 0; i < run; i++ {
		d := wire.SFDatagram{Agent: agent, Seq: uint32(700000 + i), Uptime: uint32(i), Samples: []wire.SFSample{sample(quiet, i)}}
		if i%3 == 0 {
			d.Samples = append(d.Samples, sample(quiet, i+1))
		}
		data = append(data, plDatagram{Exp: exp, Data: d.Bytes(), Class: "valid"})
	}
	for i, n := 0, rapid.IntRange(5, 30).Draw(t, "quietthen"); i < n; i++ {
		d := wire.SFDatagram{Agent: agent, Seq: uint32(710000 + i), Uptime: uint32(i), Samples: []wire.SFSample{sample(quiet, i), sample(other, i)}}
		if i%2 == 0 {
			d.Samples[0], d.Samples[1] = d.Samples[1], d.Samples[0]
		}
		data = append(data, plDatagram{Exp: exp, Data: d.Bytes(), Class: "valid"})
	}
	c.Phases = append(c.Phases, data)
}

// workerStage runs generated pipelines (generator and differential oracle of C12) under another property's name:
// the stage that makes a library-level check sensitive to what the worker around the library does.
func workerStage(t *testing.T, prop, rule string, proto func(*rapid.T) string, adjust func(*rapid.T, *plCase), opts ...string) {
	col := getCollector(prop, "")
	col.Rule += rule
	col.sampler = summarisePipelineOrSelf
	defer drivers.stopAll()
	envs := map[string]*wire.GenEnv{"ipfix": wire.NewGenEnv("ipfix"), "nf9": wire.NewGenEnv("nf9")}
	envs["ipfix"].NoEnterprise = true
	envs["ipfix"].Big, envs["nf9"].Big = true, true
	gen := rapid.Custom(func(t *rapid.T) plCase {
		c := genPipeline(t, proto(t), envs, 200, opts...)
		if adjust != nil {
			adjust(t, &c)
		}
		c.Race = false
		return c
	})
	n := 4
	if s := os.Getenv("VERIF_PIPE_CASES"); s != "" {
		if x, err := strconv.Atoi(s); err == nil && x > 0 {
			n = x
		}
	}
	seed := e2eSeed()
	for i := 0; i < n; i++ {
		c := gen.Example(seed*1000 + 300 + i)
		v, sig, err := runPipeline(prop, &c)
		v.NT = true
		v.label(true, "worker-stage")
		col.report(t, mustJSON(c), v, sig, err)
		col.addExtra("worker_stage_cases", 1)
	}
}

const c05PipeRule = " | worker stage (TestC05Pipe): generated pipelines of all four protocols (generator of C12, incl. verbose logging, worker churn, slow consumer, cross traffic) through the real workers of the package-main driver; " +
	"every payload taken from the message queue must be a valid JSON document and equal the library encoding of its datagram's decode (which the main stage validates value by value)"

func TestC05Pipe(t *testing.T) {
	workerStage(t, "C05", c05PipeRule, func(t *rapid.T) string { return rapid.SampledFrom(robustProtos).Draw(t, "proto") }, func(t *rapid.T, c *plCase) {
		c.Verbose = rapid.Bool().Draw(t, "verbose2")
	})
}

const c04PipeRule = " | worker stage (TestC04Pipe): generated IPFIX / NetFlow v9 pipelines (generator of C12) through the real workers, each ending in a queue-overflow episode: with a slow consumer more than 1000 publishing datagrams " +
	"fill the message queue, a template is redefined while it is full, and the data that follows must be decoded with the redefinition (what the full queue drops is dropped; which template is the latest does not depend on it)"

func TestC04Pipe(t *testing.T) {
	workerStage(t, "C04", c04PipeRule, func(t *rapid.T) string { return rapid.SampledFrom([]string{"ipfix", "nf9"}).Draw(t, "proto") }, nil, "overflow")
}

const c09PipeRule = " | worker stage (TestC09Pipe): generated IPFIX / NetFlow v9 pipelines (generator of C12: truncated, unknown-template, reserved-id, partly decodable and corrupted datagrams between valid ones, receive buffers reused across sizes) " +
	"through the real workers; what is published for a cut or partly undecodable datagram equals the library decode of exactly the octets received (nothing left in a recycled buffer is ever interpreted)"

func TestC09Pipe(t *testing.T) {
	workerStage(t, "C09", c09PipeRule, func(t *rapid.T) string { return rapid.SampledFrom([]string{"ipfix", "nf9"}).Draw(t, "proto") }, nil)
}

// summarisePipelineOrSelf: pipeline cases are summarised, library cases are kept as they are.
func summarisePipelineOrSelf(cj []byte) []byte {
	var probe struct {
		Phases json.RawMessage `json:"phases"`
	}
	if json.Unmarshal(cj, &probe) == nil && len(probe.Phases) > 0 {
		return summarisePipeline(cj)
	}
	return cj
}

func init() {
	for _, p := range []string{"C18", "C05", "C09", "C04"} {
		prop := p
		registerReplayExtra(prop, "phases", func(raw json.RawMessage) error {
			defer drivers.stopAll()
			var c plCase
			if err := json.Unmarshal(raw, &c); err != nil {
				return err
			}
			_, _, err := runPipeline(prop, &c)
			return err
		})
	}
}
