package props

import (
	"encoding/json"
	"os"
	"sort"
	"testing"

	"github.com/EdgeCast/vflow/ipfix"
	"gopkg.in/yaml.v2"
)

// TestGenGolden regenerates golden/ipfix_registry.json from the shipped file (run by hand only).
func TestGenGolden(t *testing.T) {
	if os.Getenv("VERIF_GEN_GOLDEN") == "" {
		t.Skip()
	}
	raw, _ := os.ReadFile(repoDir() + "/scripts/ipfix.elements")
	var y map[uint32]map[uint16][]string
	if err := yaml.Unmarshal(raw, &y); err != nil {
		t.Fatal(err)
	}
	var out []goldenEntry
	for pen, m := range y {
		for id, p := range m {
			out = append(out, goldenEntry{pen, id, p[0], p[1]})
		}
	}
	sort.Slice(out, func(i, j int) bool { return out[i].ID < out[j].ID })
	b, _ := json.MarshalIndent(out, "", " ")
	os.WriteFile("../../golden/ipfix_registry.json", b, 0o644)
	t.Logf("%d entries, builtin %d", len(out), len(ipfix.InfoModel))
}
