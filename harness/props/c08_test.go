package props

// C08 — NetFlow v5 flows are decoded field-for-field; malformed packets yield no flows.

import (
	"bytes"
	"encoding/json"
	"fmt"
	"reflect"
	"testing"

	netflow5 "github.com/EdgeCast/vflow/netflow/v5"
	"pgregory.net/rapid"
	"verif/harness/wire"
)

const c08Rule = "case = exporter address + NetFlow v5 datagram: 24-octet header (all fields free, version mostly 5) x flow count " +
	"(biased to 0,1,2,29,30,31 and beyond) x 48-octet records (zero, all-ones, every-octet-distinct, random) x datagram length " +
	"(exact, one record short, one octet short, trailing octets, extra records, cut header); oracle = for version 5, count 1..30 and enough octets " +
	"exactly count flows with all 20 fields big-endian exact and header exact, and the JSON parses to the same numbers with dotted addresses; " +
	"otherwise no flows and nothing to publish; one case in eight is additionally decoded and encoded by 6 goroutines at once (shared scratch state shows as a mismatch); non-trivial = count >= 2 decoded or a boundary case (count 0/30/31, short by one record/octet, trailing octets); distinct by hash"

type c08Case struct {
	Exporter wire.Hex       `json:"exporter"`
	Pkt      wire.NF5Packet `json:"pkt"`
}

func runC08(c *c08Case) (v verdict, sig string, err error) {
	defer func() {
		if r := recover(); r != nil {
			err, sig = fmt.Errorf("panic: %v", r), "panic"
		}
	}()
	b := c.Pkt.Bytes()
	want := c.Pkt.ExpectFlows()
	carried := len(c.Pkt.Recs)*48 + len(c.Pkt.Tail)
	v.label(want != nil, "decodable")
	v.label(c.Pkt.Version != 5, "bad-version")
	v.label(c.Pkt.Count == 0, "count-0")
	v.label(c.Pkt.Count == 30, "count-30")
	v.label(c.Pkt.Count == 31, "count-31")
	v.label(c.Pkt.Count > 31, "count>31")
	v.label(c.Pkt.Version == 5 && c.Pkt.Count >= 1 && c.Pkt.Count <= 30 && carried < int(c.Pkt.Count)*48, "too-few-octets")
	v.label(carried == int(c.Pkt.Count)*48-1, "one-octet-short")
	v.label(want != nil && carried > int(c.Pkt.Count)*48, "trailing-octets")
	v.label(c.Pkt.CutHeader > 0, "cut-header")
	boundary := c.Pkt.Count == 0 || c.Pkt.Count == 30 || c.Pkt.Count == 31 || carried == int(c.Pkt.Count)*48-1 ||
		carried == int(c.Pkt.Count)*48-48 || (want != nil && carried > int(c.Pkt.Count)*48)
	v.NT = len(want) >= 2 || boundary

	msg, derr := netflow5.NewDecoder(wire.ExactIP(c.Exporter), b).Decode()
	if want == nil {
		if msg != nil && len(msg.Flows) != 0 {
			return v, "fabricated", fmt.Errorf("packet (version %d, count %d, %d record octets) must yield no flows, decoder returned %d", c.Pkt.Version, c.Pkt.Count, carried, len(msg.Flows))
		}
		return v, "", nil
	}
	if msg == nil {
		return v, "rejected", fmt.Errorf("decodable packet rejected: %v", derr)
	}
	if derr != nil {
		return v, "error", fmt.Errorf("decodable packet reports error: %v", derr)
	}
	// header
	gh := map[string]uint64{}
	hv := reflect.ValueOf(msg.Header)
	for i := 0; i < hv.NumField(); i++ {
		gh[hv.Type().Field(i).Name] = hv.Field(i).Uint()
	}
	if d := compareHeader(gh, c.Pkt.ExpHeader()); d != "" {
		return v, "header", fmt.Errorf("%s", d)
	}
	if len(msg.Flows) != len(want) {
		return v, "count", fmt.Errorf("decoded %d flows, header announces %d", len(msg.Flows), len(want))
	}
	for i, w := range want {
		fv := reflect.ValueOf(msg.Flows[i])
		if fv.NumField() != len(wire.NF5Fields) {
			return v, "shape", fmt.Errorf("flow record has %d fields, wire format has %d", fv.NumField(), len(wire.NF5Fields))
		}
		for _, f := range wire.NF5Fields {
			g := fv.FieldByName(f.Name)
			if !g.IsValid() {
				return v, "shape", fmt.Errorf("flow record lacks field %s", f.Name)
			}
			if g.Uint() != w[f.Name] {
				return v, "field", fmt.Errorf("flow %d field %s: decoded %d, wire %d", i, f.Name, g.Uint(), w[f.Name])
			}
		}
	}
	// JSON as the worker produces it
	js, jerr := msg.JSONMarshal(new(bytes.Buffer))
	if jerr != nil {
		return v, "json-error", fmt.Errorf("JSONMarshal failed: %v", jerr)
	}
	if d := checkNF5JSON(js, c, want); d != "" {
		return v, "json", fmt.Errorf("%s", d)
	}
	return v, "", nil
}

func jsonNumber(x interface{}) (uint64, bool) {
	n, ok := x.(json.Number)
	if !ok {
		return 0, false
	}
	var u uint64
	if _, err := fmt.Sscanf(n.String(), "%d", &u); err != nil || fmt.Sprintf("%d", u) != n.String() {
		return 0, false
	}
	return u, true
}

func parseSingleJSON(js []byte) (map[string]interface{}, string) {
	if !json.Valid(js) {
		return nil, fmt.Sprintf("payload is not valid JSON: %.300q", js)
	}
	dec := json.NewDecoder(bytes.NewReader(js))
	dec.UseNumber()
	var doc map[string]interface{}
	if err := dec.Decode(&doc); err != nil {
		return nil, fmt.Sprintf("payload does not parse as a JSON object: %v", err)
	}
	if dec.More() {
		return nil, "payload holds more than one JSON document"
	}
	return doc, ""
}

func checkNF5JSON(js []byte, c *c08Case, want []map[string]uint64) string {
	doc, d := parseSingleJSON(js)
	if d != "" {
		return d
	}
	if d := checkAgentID(doc["AgentID"], c.Exporter); d != "" {
		return d
	}
	hdr, ok := doc["Header"].(map[string]interface{})
	if !ok {
		return "JSON lacks Header object"
	}
	for k, w := range c.Pkt.ExpHeader() {
		if g, ok := jsonNumber(hdr[k]); !ok || g != w {
			return fmt.Sprintf("JSON Header.%s = %v, wire %d", k, hdr[k], w)
		}
	}
	flows, ok := doc["Flows"].([]interface{})
	if !ok || len(flows) != len(want) {
		return fmt.Sprintf("JSON Flows has %d entries, want %d", len(flows), len(want))
	}
	for i, w := range want {
		fm, ok := flows[i].(map[string]interface{})
		if !ok {
			return fmt.Sprintf("JSON flow %d is not an object", i)
		}
		for _, f := range wire.NF5Fields {
			if f.Addr {
				if s, ok := fm[f.Name].(string); !ok || s != wire.Dotted(w[f.Name]) {
					return fmt.Sprintf("JSON flow %d %s = %v, want dotted %s", i, f.Name, fm[f.Name], wire.Dotted(w[f.Name]))
				}
			} else if g, ok := jsonNumber(fm[f.Name]); !ok || g != w[f.Name] {
				return fmt.Sprintf("JSON flow %d %s = %v, wire %d", i, f.Name, fm[f.Name], w[f.Name])
			}
		}
	}
	return ""
}

func TestC08(t *testing.T) {
	col := getCollector("C08", c08Rule)
	runRegress(t, "C08")
	rapid.Check(t, func(t *rapid.T) {
		c := c08Case{Exporter: wire.GenExporter(t), Pkt: wire.GenNF5(t)}
		v, sig, err := runC08(&c)
		if err == nil && len(c.Pkt.Recs) > 0 && rapid.IntRange(0, 7).Draw(t, "twins") == 0 {
			// the same packet decoded and encoded by several goroutines at once, as the workers do
			if e := concurrently(6, func() error { _, _, e := runC08(&c); return e }); e != nil {
				sig, err = "concurrent", fmt.Errorf("decoded and encoded by 6 goroutines at once: %v", e)
			}
			v.label(true, "concurrent-twins")
		}
		col.report(t, mustJSON(c), v, sig, err)
	})
}

func init() {
	registerReplay("C08", func(raw json.RawMessage) error {
		var c c08Case
		if err := json.Unmarshal(raw, &c); err != nil {
			return err
		}
		_, _, err := runC08(&c)
		return err
	})
}
