package props

// C10 — concurrent decoding, dumping and peer lookups keep the template cache sound.
// A generated concurrency plan is executed with real goroutines under the race detector.
// Version v of a key's template has exactly v fields, all of element versionElems[v]: a torn or mixed
// template is recognisable and the version is readable from any lookup or decode.

import (
	"encoding/json"
	"fmt"
	"os"
	"path/filepath"
	"runtime"
	"strings"
	"sync"
	"sync/atomic"
	"testing"
	"time"

	"github.com/EdgeCast/vflow/ipfix"
	"pgregory.net/rapid"
	"verif/harness/wire"
)

type c10Reader struct {
	Keys  []int `json:"keys"`  // key index per operation
	Kinds []int `json:"kinds"` // 0 = decode data, 1 = peer Get (ipfix), 2 = decode unknown key
	Yield []int `json:"yield"` // 0 none, 1 Gosched, 2 short sleep
}

type c10Case struct {
	Proto    string    `json:"proto"`
	Slots    []c04Slot `json:"slots"`
	Versions []int     `json:"versions"` // per key: number of versions its announcer publishes
	// Opt[k]: key k's templates are options templates with 5 scope fields in front of the v version fields
	// (decoders of one options template share its scope specifier slice)
	Opt []bool `json:"opt,omitempty"`
	// ScopeOnly[k] (with Opt[k]): key k's templates are options templates whose v fields are ALL scope fields
	// (scope field count == field count: valid, and the shape of every "per-interface name" style option)
	ScopeOnly []bool `json:"scope_only,omitempty"`
	// EmptyAlt[k]: between two versions key k's announcer announces a template of the same id whose fields all have
	// length zero (records of it cannot be delimited): a lookup or decode in that interval may find it — then the data
	// yields nothing and is reported — but every decode terminates, and what it yields is a complete version or nothing
	EmptyAlt []bool      `json:"empty_alt,omitempty"`
	AnnYield [][]int     `json:"ann_yield"`
	Readers  []c10Reader `json:"readers"`
	Dumpers  []int       `json:"dumpers"` // per dumper: number of dumps
	Rounds   int         `json:"rounds"`  // the whole plan is executed this many times on fresh caches
}

const c10Rule = "case = concurrency plan: protocol (ipfix | nf9), 2..6 (exporter,id) keys (disjoint, same-exporter, same-shard and full-hash-colliding pairs), one announcer goroutine per key publishing template versions 1..V " +
	"(version v = v fields of element e_v; a third of the keys use options templates with 5 scope fields of e_v in front, or — a third of those — options templates whose v fields are all scope fields; a fifth of the plain keys announce a template of zero-length fields between two versions: data may then yield nothing, reported, but every decode terminates), 1..6 reader goroutines (decode data for a key, peer Get, decode an unannounced key), 0..3 dumper goroutines calling Dump, drawn Gosched/sleep points; executed 1..3 rounds under the Go race detector; " +
	"oracle = (1) no race report / fatal runtime error; (2) every lookup is 'unknown' (only if nothing had been announced for the key when it began) or one COMPLETE version v of exactly that key with " +
	"done(k) at start <= v <= started(k) at end; (3) every dump file loads and holds only complete versions, each >= done(k) at dump start; " +
	"non-trivial = the plan has >= 1 dumper and >= 1 reader on a key whose announcer publishes >= 2 versions (lookups and dumps overlap announcements); distinct by hash"

const c10MaxVersions = 12

// 13 distinct unsigned32 IANA elements (index = version)
var versionElems = []uint16{0, 10, 14, 16, 17, 18, 19, 20, 21, 22, 31, 34, 35}

const c10ScopeFields = 5

func versionTemplate(id uint16, v int, opt, scopeOnly bool) wire.Template {
	tp := wire.Template{ID: id}
	if opt && scopeOnly {
		tp.Options = true
		for i := 0; i < v; i++ {
			tp.Scope = append(tp.Scope, wire.Field{ID: versionElems[v], Len: 4, Type: wire.TUint32})
		}
		return tp
	}
	if opt {
		tp.Options = true
		for i := 0; i < c10ScopeFields; i++ {
			tp.Scope = append(tp.Scope, wire.Field{ID: versionElems[v], Len: 4, Type: wire.TUint32})
		}
	}
	for i := 0; i < v; i++ {
		tp.Fields = append(tp.Fields, wire.Field{ID: versionElems[v], Len: 4, Type: wire.TUint32})
	}
	return tp
}

func (c *c10Case) isOpt(k int) bool { return k < len(c.Opt) && c.Opt[k] }

func (c *c10Case) emptyAlt(k int) bool { return k < len(c.EmptyAlt) && c.EmptyAlt[k] }

func (c *c10Case) scopeOnly(k int) bool { return c.isOpt(k) && k < len(c.ScopeOnly) && c.ScopeOnly[k] }

// fieldsOf returns the number of fields a record (or template) of version v of key k has.
func (c *c10Case) extra(k int) int {
	if c.isOpt(k) && !c.scopeOnly(k) {
		return c10ScopeFields
	}
	return 0
}

func genC10(t *rapid.T) c10Case {
	findCollisions()
	c := c10Case{Proto: rapid.SampledFrom([]string{"ipfix", "nf9"}).Draw(t, "proto")}
	switch rapid.IntRange(0, 2).Draw(t, "adversarial") {
	case 0:
		p := fullCollide[rapid.IntRange(0, len(fullCollide)-1).Draw(t, "fullpair")]
		c.Slots = append(c.Slots, p.A, p.B)
	case 1:
		p := shardCollide[rapid.IntRange(0, len(shardCollide)-1).Draw(t, "shardpair")]
		c.Slots = append(c.Slots, p.A, p.B)
	}
	nk := rapid.IntRange(2, 6).Draw(t, "nkeys")
	for len(c.Slots) < nk {
		a := wire.GenExporter(t)
		id := wire.GenTemplateID(t)
		dup := false
		for _, s := range c.Slots {
			if string(s.Addr) == string(a) && s.ID == id {
				dup = true
			}
			if mapped4(s.Addr) == mapped4(a) && len(s.Addr) != len(a) {
				dup = true
			}
		}
		if !dup {
			c.Slots = append(c.Slots, c04Slot{Addr: a, ID: id})
			if rapid.Bool().Draw(t, "sameexp") && len(c.Slots) < nk && id < 65535 {
				clash := false
				for _, s := range c.Slots {
					if string(s.Addr) == string(a) && s.ID == id+1 {
						clash = true // two announcers must never share a key
					}
				}
				if !clash {
					c.Slots = append(c.Slots, c04Slot{Addr: a, ID: id + 1})
				}
			}
		}
	}
	for range c.Slots {
		opt := rapid.IntRange(0, 2).Draw(t, "optkey") == 0
		c.Opt = append(c.Opt, opt)
		c.ScopeOnly = append(c.ScopeOnly, opt && rapid.IntRange(0, 2).Draw(t, "scopeonly") == 0)
		c.EmptyAlt = append(c.EmptyAlt, !opt && rapid.IntRange(0, 4).Draw(t, "emptyalt") == 0)
		nv := rapid.IntRange(1, c10MaxVersions).Draw(t, "nversions")
		if opt && nv > 7 {
			nv = 7 // a record of version v has (5+v)*4 octets and must fit the 48-octet probe
		}
		c.Versions = append(c.Versions, nv)
		c.AnnYield = append(c.AnnYield, rapid.SliceOfN(rapid.IntRange(0, 2), nv, nv).Draw(t, "annyield"))
	}
	nr := rapid.IntRange(1, 6).Draw(t, "nreaders")
	for i := 0; i < nr; i++ {
		n := rapid.IntRange(5, 60).Draw(t, "nreads")
		r := c10Reader{}
		for j := 0; j < n; j++ {
			r.Keys = append(r.Keys, rapid.IntRange(0, len(c.Slots)-1).Draw(t, "rkey"))
			r.Kinds = append(r.Kinds, rapid.SampledFrom([]int{0, 0, 0, 1, 1, 2}).Draw(t, "rkind"))
			r.Yield = append(r.Yield, rapid.SampledFrom([]int{0, 0, 1, 1, 2}).Draw(t, "ryield"))
		}
		c.Readers = append(c.Readers, r)
	}
	nd := rapid.IntRange(0, 3).Draw(t, "ndumpers")
	for i := 0; i < nd; i++ {
		c.Dumpers = append(c.Dumpers, rapid.IntRange(1, 6).Draw(t, "ndumps"))
	}
	c.Rounds = rapid.IntRange(1, 3).Draw(t, "rounds")
	return c
}

func yield(k int) {
	switch k {
	case 1:
		runtime.Gosched()
	case 2:
		time.Sleep(50 * time.Microsecond)
	}
}

// observedVersion extracts the version from a looked-up template; error when it is not a complete version of key id.
func observedVersion(id uint16, n int, elem func(i int) uint16, declaredID, declaredCount, extra int) (int, error) {
	if declaredID != int(id) {
		return 0, fmt.Errorf("template id %d returned for id %d", declaredID, id)
	}
	v := n - extra
	if v < 1 || v > c10MaxVersions {
		return 0, fmt.Errorf("template with %d fields (%d of them scope fields) is no announced version", n, extra)
	}
	if declaredCount >= 0 && declaredCount != n {
		return 0, fmt.Errorf("torn template: FieldCount %d but %d field specifiers", declaredCount, n)
	}
	for i := 0; i < n; i++ {
		if elem(i) != versionElems[v] {
			return 0, fmt.Errorf("mixed template: field %d of version %d is element %d, that version uses element %d", i, v, elem(i), versionElems[v])
		}
	}
	return v, nil
}

func runC10(c *c10Case) (v verdict, sig string, err error) {
	if len(c.Slots) < 1 || len(c.Versions) != len(c.Slots) {
		return v, "", fmt.Errorf("bad case")
	}
	for i := range c.Slots {
		for j := i + 1; j < len(c.Slots); j++ {
			if string(c.Slots[i].Addr) == string(c.Slots[j].Addr) && c.Slots[i].ID == c.Slots[j].ID {
				return v, "", fmt.Errorf("bad case: two announcers for one key")
			}
		}
	}
	maxV := 0
	for _, nv := range c.Versions {
		if nv > maxV {
			maxV = nv
		}
	}
	overlap := false
	for _, r := range c.Readers {
		for _, k := range r.Keys {
			if c.Versions[k] >= 2 && len(c.Dumpers) > 0 {
				overlap = true
			}
		}
	}
	v.NT = overlap
	v.label(true, "proto-"+c.Proto)
	v.label(len(c.Dumpers) > 0, "has-dumper")
	v.label(len(c.Dumpers) > 1, "concurrent-dumpers")
	for i := range c.Slots {
		for j := i + 1; j < len(c.Slots); j++ {
			hi, hj := fnvKey(c.Slots[i].Addr, c.Slots[i].ID), fnvKey(c.Slots[j].Addr, c.Slots[j].ID)
			v.label(hi == hj, "full-hash-collision-pair")
			v.label(hi != hj && hi%32 == hj%32, "same-shard-pair")
		}
	}
	work := os.Getenv("VERIF_WORK")
	if work == "" {
		work = os.TempDir()
	}
	dir, e := os.MkdirTemp(work, "c10-")
	if e != nil {
		return v, "", fmt.Errorf("harness: %v", e)
	}
	defer os.RemoveAll(dir)

	rounds := c.Rounds
	if rounds < 1 {
		rounds = 1
	}
	for round := 0; round < rounds; round++ {
		if e := c10Round(c, dir, round); e != nil {
			return v, "lookup", e
		}
	}
	return v, "", nil
}

func c10Round(c *c10Case, dir string, round int) error {
	cache := newFlowCache(c.Proto)
	// one peer-lookup service object for all lookups, as the collector registers one for all peer connections
	var peer *ipfix.IRPC
	if c.Proto == "ipfix" {
		peer = ipfix.NewRPC(cache.ix)
	}
	nk := len(c.Slots)
	started := make([]int32, nk)
	done := make([]int32, nk)
	var wg sync.WaitGroup
	var mu sync.Mutex
	var firstErr error
	fail := func(format string, a ...interface{}) {
		mu.Lock()
		if firstErr == nil {
			firstErr = fmt.Errorf(format, a...)
		}
		mu.Unlock()
	}
	guard := func(what string, f func()) {
		defer wg.Done()
		defer func() {
			if r := recover(); r != nil {
				fail("%s panicked: %v", what, r)
			}
		}()
		f()
	}
	start := make(chan struct{})

	// announcers
	for k := range c.Slots {
		k := k
		wg.Add(1)
		go guard(fmt.Sprintf("announcer of key %d", k), func() {
			<-start
			sl := c.Slots[k]
			for ver := 1; ver <= c.Versions[k]; ver++ {
				tp := versionTemplate(sl.ID, ver, c.isOpt(k), c.scopeOnly(k))
				kind := "tpl"
				if tp.Options {
					kind = "opt"
				}
				m := wire.Msg{Proto: c.Proto, Seq: uint32(ver), Sets: []wire.Set{{Kind: kind, Tpls: []wire.Template{tp}}}}
				atomic.StoreInt32(&started[k], int32(ver))
				res, perr := cache.decodeFlow(wire.ExactIP(sl.Addr), m.Bytes())
				if perr != nil || res.Nil || res.Err != nil {
					fail("announcing version %d of key %d failed: %v %v", ver, k, perr, res.Err)
					return
				}
				atomic.StoreInt32(&done[k], int32(ver))
				if c.emptyAlt(k) && ver < c.Versions[k] {
					et := wire.Template{ID: sl.ID}
					for i := 0; i < ver; i++ {
						et.Fields = append(et.Fields, wire.Field{ID: versionElems[ver], Len: 0, Type: wire.TUint32})
					}
					em := wire.Msg{Proto: c.Proto, Seq: uint32(1000 + ver), Sets: []wire.Set{{Kind: "tpl", Tpls: []wire.Template{et}}}}
					if _, perr := cache.decodeFlow(wire.ExactIP(sl.Addr), em.Bytes()); perr != nil {
						fail("announcing a template of zero-length fields for key %d: %v", k, perr)
						return
					}
				}
				yield(c.AnnYield[k][ver-1])
			}
		})
	}
	checkRange := func(what string, k int, lo int32, obs int, unknown bool) {
		hi := atomic.LoadInt32(&started[k])
		if unknown {
			if lo > 0 {
				fail("%s: key %d reported unknown although version %d had been announced before the lookup began", what, k, lo)
			}
			return
		}
		if int32(obs) < lo {
			fail("%s: key %d observed version %d, but version %d had already been announced before the lookup began (superseded template)", what, k, obs, lo)
		}
		if int32(obs) > hi {
			fail("%s: key %d observed version %d, but only %d versions have been started", what, k, obs, hi)
		}
	}
	// readers
	for ri := range c.Readers {
		r := c.Readers[ri]
		wg.Add(1)
		go guard(fmt.Sprintf("reader %d", ri), func() {
			<-start
			for j := range r.Keys {
				k := r.Keys[j]
				sl := c.Slots[k]
				yield(r.Yield[j])
				switch r.Kinds[j] {
				case 0:
					lo := atomic.LoadInt32(&done[k])
					body := make([]byte, 48)
					m := wire.Msg{Proto: c.Proto, Seq: 77, Sets: []wire.Set{{Kind: "raw", RawID: sl.ID, RawBody: body}}}
					res, perr := cache.decodeFlow(wire.ExactIP(sl.Addr), m.Bytes())
					if perr != nil {
						fail("reader: %v", perr)
						return
					}
					if res.Nil {
						fail("reader: data message for key %d rejected: %v", k, res.Err)
						return
					}
					if res.Err != nil {
						if strings.Contains(strings.ToLower(res.Err.Error()), "unknown") && len(res.Recs) == 0 {
							checkRange("decode", k, lo, 0, true)
							continue
						}
						if c.emptyAlt(k) && len(res.Recs) == 0 {
							continue // the template of zero-length fields was in force: nothing decoded, reported
						}
						fail("reader: decoding data for key %d failed: %v", k, res.Err)
						return
					}
					if len(res.Recs) == 0 {
						fail("reader: no records and no error for key %d", k)
						return
					}
					rec := res.Recs[0]
					obs, e := observedVersion(sl.ID, len(rec), func(i int) uint16 { return rec[i].ID }, int(sl.ID), -1, c.extra(k))
					if e != nil {
						fail("decode of key %d used an incomplete template: %v", k, e)
						return
					}
					for _, other := range res.Recs {
						if len(other) != obs+c.extra(k) {
							fail("decode of key %d: records of one set decoded with different templates", k)
							return
						}
					}
					if want := 48 / (4 * (obs + c.extra(k))); len(res.Recs) != want {
						fail("decode of key %d with version %d: %d records, want %d", k, obs, len(res.Recs), want)
						return
					}
					checkRange("decode", k, lo, obs, false)
				case 1:
					if c.Proto != "ipfix" {
						continue
					}
					lo := atomic.LoadInt32(&done[k])
					var resp ipfix.TemplateRecord
					gerr := peer.Get(ipfix.RPCRequest{ID: sl.ID, IP: wire.ExactIP(sl.Addr)}, &resp)
					if gerr != nil {
						checkRange("peer Get", k, lo, 0, true)
						continue
					}
					all := append(append([]ipfix.TemplateFieldSpecifier{}, resp.ScopeFieldSpecifiers...), resp.FieldSpecifiers...)
					if c.emptyAlt(k) && len(all) > 0 {
						zero := true
						for _, f := range all {
							zero = zero && f.Length == 0
						}
						if zero {
							continue
						}
					}
					wantScope := c.extra(k)
					if c.scopeOnly(k) {
						wantScope = len(all)
					}
					if len(resp.ScopeFieldSpecifiers) != wantScope || int(resp.ScopeFieldCount) != wantScope {
						fail("peer Get of key %d returned a template with %d scope fields (count %d), announced %d", k, len(resp.ScopeFieldSpecifiers), resp.ScopeFieldCount, wantScope)
						return
					}
					obs, e := observedVersion(sl.ID, len(all), func(i int) uint16 { return all[i].ElementID }, int(resp.TemplateID), int(resp.FieldCount), c.extra(k))
					if e != nil {
						fail("peer Get of key %d returned an incomplete template: %v", k, e)
						return
					}
					checkRange("peer Get", k, lo, obs, false)
				default:
					// a key nobody announces: same exporter, id shifted out of the plan
					id := sl.ID ^ 0x4000
					if id < 256 {
						id += 256
					}
					clash := false
					for _, o := range c.Slots {
						if o.ID == id && string(o.Addr) == string(sl.Addr) {
							clash = true
						}
					}
					if clash {
						continue
					}
					m := wire.Msg{Proto: c.Proto, Seq: 78, Sets: []wire.Set{{Kind: "raw", RawID: id, RawBody: make([]byte, 16)}}}
					res, perr := cache.decodeFlow(wire.ExactIP(sl.Addr), m.Bytes())
					if perr != nil {
						fail("reader: %v", perr)
						return
					}
					if len(res.Recs) != 0 {
						fail("data for a never-announced key decoded into %d records", len(res.Recs))
						return
					}
				}
			}
		})
	}
	// dumpers
	type dumpRec struct {
		file string
		lo   []int32
		hi   []int32
	}
	var dumps []dumpRec
	for di, nd := range c.Dumpers {
		di, nd := di, nd
		wg.Add(1)
		go guard(fmt.Sprintf("dumper %d", di), func() {
			<-start
			for j := 0; j < nd; j++ {
				yield(1 + j%2)
				lo := make([]int32, nk)
				for k := range lo {
					lo[k] = atomic.LoadInt32(&done[k])
				}
				file := filepath.Join(dir, fmt.Sprintf("dump-%d-%d-%d.json", round, di, j))
				if e := cache.dump(file); e != nil {
					fail("Dump failed: %v", e)
					return
				}
				hi := make([]int32, nk)
				for k := range hi {
					hi[k] = atomic.LoadInt32(&started[k])
				}
				mu.Lock()
				dumps = append(dumps, dumpRec{file, lo, hi})
				mu.Unlock()
			}
		})
	}
	close(start)
	// a decode that does not terminate (or grows without bound) would keep the plan from ever finishing: the plan is
	// watched by the processor time and the heap it takes (a busy machine only makes the wall clock run)
	planDone := make(chan struct{})
	go func() { wg.Wait(); close(planDone) }()
	var ms0 runtime.MemStats
	runtime.ReadMemStats(&ms0)
	cpu0, t0 := processCPU(), time.Now()
WATCH:
	for {
		select {
		case <-planDone:
			break WATCH
		case <-time.After(100 * time.Millisecond):
		}
		var ms runtime.MemStats
		runtime.ReadMemStats(&ms)
		used := processCPU() - cpu0
		if grown := ms.HeapAlloc > ms0.HeapAlloc && ms.HeapAlloc-ms0.HeapAlloc > 2<<30; grown || used > 120*time.Second || time.Since(t0) > 20*time.Minute {
			// the goroutines cannot be stopped: the process ends here, the case in flight is in the side file
			msg := fmt.Sprintf("a concurrency plan has not finished after %.0fs of processor time (%.0fs of wall clock), heap grown by %d MiB: a decode, lookup or dump does not terminate or its memory is not bounded",
				used.Seconds(), time.Since(t0).Seconds(), (ms.HeapAlloc-ms0.HeapAlloc)>>20)
			rp := ""
			if *flagReplay != "" {
				dir := filepath.Join(*flagReplay, "C10")
				os.MkdirAll(dir, 0o755)
				rp = filepath.Join(dir, fmt.Sprintf("fail-%s.json", *flagShard))
				b, _ := json.MarshalIndent(replayFile{Property: "C10", Kind: "watchdog", Message: msg, Case: mustJSON(c)}, "", " ")
				os.WriteFile(rp, b, 0o644)
			}
			fmt.Printf("WATCHDOG property=C10 %s (replay %s)\n", msg, rp)
			os.Exit(3)
		}
	}
	if firstErr != nil {
		return firstErr
	}
	// (3) every dump loads back as a set of complete versions
	for _, d := range dumps {
		lc, perr := safeLoad(c.Proto, d.file)
		if perr != nil {
			return perr
		}
		for k, sl := range c.Slots {
			body := make([]byte, 48)
			m := wire.Msg{Proto: c.Proto, Seq: 79, Sets: []wire.Set{{Kind: "raw", RawID: sl.ID, RawBody: body}}}
			res, perr := lc.decodeFlow(wire.ExactIP(sl.Addr), m.Bytes())
			if perr != nil {
				return fmt.Errorf("decoding against a loaded dump: %v", perr)
			}
			if res.Nil {
				return fmt.Errorf("dump %s: data for key %d rejected: %v", filepath.Base(d.file), k, res.Err)
			}
			if res.Err != nil && strings.Contains(strings.ToLower(res.Err.Error()), "unknown") {
				if d.lo[k] > 0 {
					return fmt.Errorf("dump taken after version %d of key %d had been announced does not contain the key", d.lo[k], k)
				}
				continue
			}
			if c.emptyAlt(k) && res.Err != nil && len(res.Recs) == 0 {
				continue // the dump caught the template of zero-length fields
			}
			if res.Err != nil || len(res.Recs) == 0 {
				return fmt.Errorf("dump %s: key %d does not decode: %v", filepath.Base(d.file), k, res.Err)
			}
			rec := res.Recs[0]
			obs, e := observedVersion(sl.ID, len(rec), func(i int) uint16 { return rec[i].ID }, int(sl.ID), -1, c.extra(k))
			if e != nil {
				return fmt.Errorf("dump holds an incomplete template for key %d: %v", k, e)
			}
			if int32(obs) < d.lo[k] || int32(obs) > d.hi[k] {
				return fmt.Errorf("dump holds version %d of key %d; versions announced before the dump began: %d, started when it ended: %d", obs, k, d.lo[k], d.hi[k])
			}
		}
	}
	return nil
}

func writeInflight(prop string, caseJSON []byte) {
	dir := os.Getenv("VERIF_INFLIGHT_DIR")
	if dir == "" {
		return
	}
	rf := replayFile{Property: prop, Kind: "crash", Message: "the process died (race report or fatal runtime error) while this case was running; see the crash log next to this file", Case: caseJSON}
	b, _ := json.Marshal(rf)
	os.WriteFile(filepath.Join(dir, fmt.Sprintf("inflight-%s.json", *flagShard)), b, 0o644)
}

func clearInflight() {
	if dir := os.Getenv("VERIF_INFLIGHT_DIR"); dir != "" {
		os.Remove(filepath.Join(dir, fmt.Sprintf("inflight-%s.json", *flagShard)))
	}
}

func TestC10(t *testing.T) {
	col := getCollector("C10", c10Rule)
	findCollisions()
	runRegress(t, "C10")
	rapid.Check(t, func(t *rapid.T) {
		c := genC10(t)
		cj := mustJSON(c)
		writeInflight("C10", cj)
		v, sig, err := runC10(&c)
		col.report(t, cj, v, sig, err)
	})
	clearInflight()
}

func init() {
	registerReplay("C10", func(raw json.RawMessage) error {
		var c c10Case
		if err := json.Unmarshal(raw, &c); err != nil {
			return err
		}
		findCollisions()
		// a schedule-dependent failure may need several executions of the plan
		for i := 0; i < 20; i++ {
			if _, _, err := runC10(&c); err != nil {
				return err
			}
		}
		return nil
	})
}
