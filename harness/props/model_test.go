package props

// Configured information model.
//
// At start-up vflow reads <configuration directory>/ipfix.elements and, when the file exists, replaces the built-in
// table by what the file lists (IPFIX and NetFlow v9 decoders share the table). "The information model" that C03,
// C06 and C09 quantify over is therefore a parameter of the collector, not a constant. This stage draws models
// (built-in elements left out, re-typed, further IANA ids, enterprise elements), installs each through the real
// loader and runs the property's own generator and oracle against it: the reference interpretation takes its types
// from the drawn model, never from the live table.

import (
	"encoding/json"
	"fmt"
	"os"
	"path/filepath"
	"sort"
	"strconv"
	"strings"
	"sync"
	"testing"

	"github.com/EdgeCast/vflow/ipfix"
	"pgregory.net/rapid"
	"verif/harness/wire"
)

type modelDelta struct {
	Omit   []uint16       `json:"omit,omitempty"`   // ids of the built-in table the file leaves out
	Retype map[uint16]int `json:"retype,omitempty"` // built-in id -> abstract data type the file gives it
	Add    []wire.Elem    `json:"add,omitempty"`    // elements the built-in table does not have (IANA and enterprise)
}

type modelCase struct {
	Proto string         `json:"proto"`
	Model modelDelta     `json:"model"`
	Sc    *wire.Scenario `json:"scenario,omitempty"` // C03 / C06
	C09   *c09Case       `json:"c09,omitempty"`
}

const modelRule = " | configured-model stage: an information model is drawn (0..40 % of the built-in elements left out, 0..15 % given another of the 20 abstract data types, " +
	"0..12 further IANA ids incl. 434, 511, 512, 32767, 0..12 enterprise elements), written as an ipfix.elements file and installed through the real loader; the check's own generator draws templates over that model " +
	"and the oracle interprets the octets with the drawn model's types (for C09 the elements the file leaves out are the 'elements missing from the information model')"

var (
	builtinOnce sync.Once
	builtinIANA []wire.Elem
)

// builtinElems is the IANA part of the live table, taken before this process installs any model (C20 holds it
// against the registry snapshot).
func builtinElems() []wire.Elem {
	builtinOnce.Do(func() {
		for _, e := range wire.Elements() {
			if e.PEN == 0 {
				builtinIANA = append(builtinIANA, e)
			}
		}
	})
	return builtinIANA
}

func (d *modelDelta) elems() []wire.Elem {
	omit := map[uint16]bool{}
	for _, id := range d.Omit {
		omit[id] = true
	}
	var out []wire.Elem
	for _, e := range builtinElems() {
		if omit[e.ID] {
			continue
		}
		if t, ok := d.Retype[e.ID]; ok {
			e.Type = t
		}
		out = append(out, e)
	}
	return append(out, d.Add...)
}

// missing lists IANA ids that are not part of the model: the ones left out, and the usual unknown ids unless the
// model adds them.
func (d *modelDelta) missing() []int {
	have := map[uint16]bool{}
	for _, e := range d.Add {
		if e.PEN == 0 {
			have[e.ID] = true
		}
	}
	var out []int
	for _, id := range d.Omit {
		out = append(out, int(id))
	}
	for _, id := range []int{434, 500, 9999, 32767} {
		if !have[uint16(id)] {
			out = append(out, id)
		}
	}
	return out
}

func genModelDelta(t *rapid.T) modelDelta {
	var d modelDelta
	base := builtinElems()
	pOmit := rapid.SampledFrom([]int{0, 0, 3, 15, 40}).Draw(t, "pomit")
	pRetype := rapid.SampledFrom([]int{0, 3, 15}).Draw(t, "pretype")
	for _, e := range base {
		x := rapid.IntRange(0, 99).Draw(t, "roll")
		switch {
		case x < pOmit:
			d.Omit = append(d.Omit, e.ID)
		case x < pOmit+pRetype:
			nt := rapid.IntRange(1, 20).Draw(t, "newtype")
			if nt != e.Type {
				if d.Retype == nil {
					d.Retype = map[uint16]int{}
				}
				d.Retype[e.ID] = nt
			}
		}
	}
	known := map[uint16]bool{}
	for _, e := range base {
		known[e.ID] = true
	}
	for i, n := 0, rapid.IntRange(0, 12).Draw(t, "naddiana"); i < n; i++ {
		id := uint16(rapid.OneOf(rapid.SampledFrom([]int{434, 435, 500, 511, 512, 513, 1023, 1024, 9999, 32767}), rapid.IntRange(434, 32767)).Draw(t, "addid"))
		if known[id] {
			continue
		}
		known[id] = true
		d.Add = append(d.Add, wire.Elem{PEN: 0, ID: id, Type: rapid.IntRange(1, 20).Draw(t, "addtype")})
	}
	seen := map[[2]uint32]bool{}
	for i, n := 0, rapid.IntRange(0, 12).Draw(t, "naddent"); i < n; i++ {
		pen := rapid.SampledFrom([]uint32{1, 9, 29305, 0x7fffffff, 0xffffffff}).Draw(t, "addpen")
		id := uint16(rapid.OneOf(rapid.IntRange(0, 40), rapid.SampledFrom([]int{0, 1, 255, 256, 511, 512, 0x7fff})).Draw(t, "addentid"))
		if seen[[2]uint32{pen, uint32(id)}] {
			continue
		}
		seen[[2]uint32{pen, uint32(id)}] = true
		d.Add = append(d.Add, wire.Elem{PEN: pen, ID: id, Type: rapid.IntRange(1, 20).Draw(t, "addenttype")})
	}
	return d
}

var modelDir = struct {
	sync.Mutex
	dir string
}{}

// installModel writes the model as an ipfix.elements file and runs the real loader on it.
func installModel(d *modelDelta) error {
	modelDir.Lock()
	defer modelDir.Unlock()
	if modelDir.dir == "" {
		base := os.Getenv("VERIF_WORK")
		if base == "" {
			base = os.TempDir()
		}
		dir, err := os.MkdirTemp(base, "model-")
		if err != nil {
			return fmt.Errorf("harness: %v", err)
		}
		modelDir.dir = dir
	}
	byPEN := map[uint32][]wire.Elem{}
	for _, e := range d.elems() {
		byPEN[e.PEN] = append(byPEN[e.PEN], e)
	}
	var pens []uint32
	for p := range byPEN {
		pens = append(pens, p)
	}
	sort.Slice(pens, func(i, j int) bool { return pens[i] < pens[j] })
	var b strings.Builder
	for _, p := range pens {
		b.WriteString(strconv.FormatUint(uint64(p), 10) + ":\n")
		for _, e := range byPEN[p] {
			fmt.Fprintf(&b, "  %d:\n  - e%d_%d\n  - %s\n", e.ID, p, e.ID, wire.TypeName(e.Type))
		}
	}
	if err := os.WriteFile(filepath.Join(modelDir.dir, "ipfix.elements"), []byte(b.String()), 0o644); err != nil {
		return fmt.Errorf("harness: %v", err)
	}
	if err := ipfix.LoadExtElements(modelDir.dir); err != nil {
		return fmt.Errorf("the loader rejects a well-formed elements file: %v", err)
	}
	return nil
}

// restoreModel brings back what the other tests of this process expect: the shipped file (equal to the built-in
// table, which C20 decides) plus the harness's enterprise elements.
func restoreModel() {
	modelDir.Lock()
	dir := modelDir.dir
	modelDir.dir = ""
	modelDir.Unlock()
	if dir != "" {
		os.RemoveAll(dir)
	}
	ipfix.LoadExtElements(filepath.Join(repoDir(), "scripts"))
	wire.InstallEnterprise()
}

func modelCases(def int) int {
	if s := os.Getenv("VERIF_MODEL_CASES"); s != "" {
		if n, err := strconv.Atoi(s); err == nil && n > 0 {
			return n
		}
	}
	return def
}

func runModelCase(prop string, c *modelCase) (v verdict, sig string, err error) {
	if e := installModel(&c.Model); e != nil {
		return v, "loader", e
	}
	switch {
	case c.Sc != nil:
		v, sig, err = runScenarioDecode(c.Sc)
	case c.C09 != nil:
		v, sig, err = runC09(c.C09)
	default:
		return v, "", fmt.Errorf("bad case: neither scenario nor c09")
	}
	v.label(true, "configured-model")
	v.label(len(c.Model.Omit) > 0, "model-leaves-out-built-in-elements")
	v.label(len(c.Model.Retype) > 0, "model-retypes-built-in-elements")
	v.label(len(c.Model.Add) > 0, "model-adds-elements")
	if c.Sc != nil {
		// does the message use an element whose type the model changed?
		used := false
		for i := range c.Sc.Main.Sets {
			if tp := c.Sc.Main.Sets[i].Tpl; tp != nil {
				for _, f := range tp.All() {
					if _, ok := c.Model.Retype[f.ID]; ok && f.PEN == 0 {
						used = true
					}
				}
			}
		}
		v.label(used, "record-uses-a-retyped-element")
	}
	if err != nil {
		err = fmt.Errorf("under a configured information model (%d built-in elements left out, %d re-typed, %d added): %v", len(c.Model.Omit), len(c.Model.Retype), len(c.Model.Add), err)
	}
	return
}

// modelStage: n models per shard, per models scenarios (or C09 cases) each.
func modelStage(t *testing.T, prop, proto string) {
	installEnterprise()
	builtinElems()
	col := getCollector(prop, "")
	if !strings.Contains(col.Rule, "configured-model stage") {
		col.Rule += modelRule
	}
	defer restoreModel()
	n, per := modelCases(3), 150
	seed := e2eSeed()
	mgen := rapid.Custom(genModelDelta)
	for i := 0; i < n; i++ {
		d := mgen.Example(seed*1000 + 700 + i)
		env := wire.NewGenEnvFrom(proto, d.elems())
		env.Missing = d.missing()
		if proto == "nf9" {
			env.Missing = append(env.Missing, 32768, 33000, 65535) // plain 16-bit field types of the upper half
		}
		cgen := rapid.Custom(func(t *rapid.T) modelCase {
			c := modelCase{Proto: proto, Model: d}
			if prop == "C09" {
				x := genC09(t, env)
				c.C09 = &x
			} else {
				sc := env.GenScenario(t, 3, 5)
				c.Sc = &sc
			}
			return c
		})
		for k := 0; k < per; k++ {
			c := cgen.Example(seed*100000 + i*1000 + k)
			v, sig, err := runModelCase(prop, &c)
			col.report(t, mustJSON(c), v, sig, err)
			col.addExtra("configured_model_cases", 1)
			if err != nil {
				return
			}
		}
	}
}

func TestC03Model(t *testing.T) { modelStage(t, "C03", "ipfix") }
func TestC06Model(t *testing.T) { modelStage(t, "C06", "nf9") }
func TestC09Model(t *testing.T) {
	modelStage(t, "C09", "ipfix")
	modelStage(t, "C09", "nf9")
}

func init() {
	for _, prop := range []string{"C03", "C06", "C09"} {
		prop := prop
		registerReplayExtra(prop, "model", func(raw json.RawMessage) error {
			installEnterprise()
			builtinElems()
			var c modelCase
			if err := json.Unmarshal(raw, &c); err != nil {
				return err
			}
			defer restoreModel()
			_, _, err := runModelCase(prop, &c)
			return err
		})
	}
}
