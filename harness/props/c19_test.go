package props

// C19 — the byte reader never reads outside its buffer and accounts exactly.
// Stateful model check: model = (bytes, pos); every operation's result, Len()
// and ReadCount() are compared with the model after every step.

import (
	"bytes"
	"encoding/binary"
	"encoding/hex"
	"encoding/json"
	"fmt"
	"math"
	"net"
	"os"
	"strings"
	"testing"
	"time"

	"github.com/EdgeCast/vflow/ipfix"
	netflow5 "github.com/EdgeCast/vflow/netflow/v5"
	netflow9 "github.com/EdgeCast/vflow/netflow/v9"
	"github.com/EdgeCast/vflow/reader"
	"pgregory.net/rapid"
	"verif/harness/wire"
)

type c19Op struct {
	Op string `json:"op"` // u8 u16 u32 u64 read peek peek16 len count
	N  int    `json:"n,omitempty"`
	// Rep > 1: the operation is carried out that many times in a row (each one checked): tens of thousands of reads
	// on one reader without tens of thousands of entries in the case
	Rep int `json:"rep,omitempty"`
}

type c19Case struct {
	Buf  string  `json:"buf"`  // window contents, hex
	Pre  int     `json:"pre"`  // sentinel octets before the window in the backing array
	Post int     `json:"post"` // sentinel octets after the window (cap > len)
	Ops  []c19Op `json:"ops"`
	// BigLen > 0: the window is BigLen octets of a fixed pattern (octet i = i*31+7) instead of Buf — buffers
	// beyond the 8- and 16-bit marks without megabytes of hex in the case
	BigLen int `json:"big_len,omitempty"`
	// Prelude: datagrams this process decodes (IPFIX, NetFlow v9, NetFlow v5 decoders, each reading its datagram through
	// readers of its own) before the reader under test is created: "every buffer" includes buffers read in a process
	// that has read others before
	Prelude []string `json:"prelude,omitempty"`
}

const c19Rule = "case = buffer (0..64 octets, random or — a quarter of the cases — all 0xff / 0x00 / 0x80 / 0x7f or runs of 0xff and 0x00, in 1 case of 16 a patterned buffer of 255..1 Mi octets around the 8-, 16- and 17-bit marks; window into a sentinel-filled array so cap>len) + 1..40 reader operations (one in 40 repeated 255..70000 times) " +
	"(Uint8/16/32/64, Read n, Peek n, PeekUint16, Len, ReadCount; n in 0..len+8 and huge values up to MaxInt); in a quarter of the cases the process lets 1..4 of the collector's decoders read a datagram (complete or cut short) before the reader under test is created, and a fresh reader must report 0 octets consumed; " +
	"non-trivial = a failed read is later followed by a successful read and the sequence has >=1 peek; distinct by hash of the case"

func genC19(t *rapid.T) c19Case {
	n := rapid.OneOf(rapid.IntRange(0, 12), rapid.IntRange(0, 64)).Draw(t, "len")
	buf := rapid.SliceOfN(rapid.Byte(), n, n).Draw(t, "buf")
	switch rapid.IntRange(0, 7).Draw(t, "content") {
	case 0:
		// all ones, all zeros: the values an integer read cannot tell from "nothing" if it ever uses one as a marker
		x := rapid.SampledFrom([]byte{0xff, 0xff, 0x00, 0x80, 0x7f}).Draw(t, "fill")
		for i := range buf {
			buf[i] = x
		}
	case 1:
		// runs of 0xff / 0x00 of drawn lengths between random octets
		for i := 0; i < len(buf); {
			run := rapid.IntRange(1, 9).Draw(t, "run")
			x := rapid.SampledFrom([]byte{0xff, 0x00}).Draw(t, "runfill")
			for k := 0; k < run && i < len(buf); k, i = k+1, i+1 {
				buf[i] = x
			}
			i += rapid.IntRange(0, 2).Draw(t, "gap")
		}
	}
	c := c19Case{Buf: hex.EncodeToString(buf), Pre: rapid.IntRange(0, 9).Draw(t, "pre"), Post: rapid.IntRange(0, 9).Draw(t, "post")}
	if rapid.IntRange(0, 15).Draw(t, "big") == 0 {
		c.Buf = ""
		c.BigLen = rapid.SampledFrom([]int{255, 256, 257, 32768, 65535, 65536, 65537, 65600, 70000, 131071, 131072, 131080, 1 << 20}).Draw(t, "biglen")
		n = c.BigLen
	}
	nops := rapid.IntRange(1, 40).Draw(t, "nops")
	names := []string{"u8", "u16", "u32", "u64", "read", "peek", "peek16", "len", "count"}
	for i := 0; i < nops; i++ {
		op := c19Op{Op: rapid.SampledFrom(names).Draw(t, "op")}
		if op.Op == "read" || op.Op == "peek" {
			op.N = rapid.OneOf(rapid.IntRange(0, 9), rapid.IntRange(0, n+8), rapid.SampledFrom([]int{n, n - 1, n / 2, n - 8, 127, 128, 256, 32767, 32768, 65534}),
				// lengths far beyond any buffer (a bounds check that adds to the length must not wrap)
				rapid.SampledFrom([]int{255, 65535, 65536, 1 << 31, 1<<31 - 1, 1 << 32, math.MaxInt - 2, math.MaxInt - 1, math.MaxInt, math.MaxInt - 64}),
			).Draw(t, "n")
			if op.N < 0 {
				op.N = 0 // lengths come from unsigned wire fields: never negative
			}
		}

		c.Ops = append(c.Ops, op)
	}
	if rapid.IntRange(0, 3).Draw(t, "withprelude") == 0 {
		c.Prelude = rapid.SliceOfN(rapid.SampledFrom([]string{"nf5", "ipfix", "nf9", "nf5-short", "ipfix-short", "nf9-short"}), 1, 4).Draw(t, "prelude")
	}
	if rapid.IntRange(0, 29).Draw(t, "rep") == 0 {
		op := &c.Ops[rapid.IntRange(0, len(c.Ops)-1).Draw(t, "repidx")]
		op.Rep = rapid.SampledFrom([]int{255, 256, 257, 32768, 65535, 65536, 65537, 70000}).Draw(t, "nrep")
		if (op.Op == "read" || op.Op == "peek") && op.N > 1 {
			op.N = rapid.IntRange(0, 1).Draw(t, "repn")
		}
	}
	return c
}

func runC19(c c19Case) (v verdict, sig string, err error) {
	buf, e := hex.DecodeString(c.Buf)
	if e != nil {
		return v, "", fmt.Errorf("bad case: %v", e)
	}
	if c.BigLen > 0 {
		if c.BigLen > 1<<22 {
			return v, "", fmt.Errorf("bad case: big_len")
		}
		buf = make([]byte, c.BigLen)
		for i := range buf {
			buf[i] = byte(i*31 + 7)
		}
		v.label(true, "buffer>=255-octets")
		v.label(c.BigLen >= 65536, "buffer>=64KiB")
	}
	// backing array: pre sentinels | window | post sentinels
	back := make([]byte, c.Pre+len(buf)+c.Post)
	for i := range back {
		back[i] = 0xA5 ^ byte(i*37)
	}
	copy(back[c.Pre:], buf)
	window := back[c.Pre : c.Pre+len(buf)]
	snapshot := append([]byte{}, back...)

	defer func() {
		if r := recover(); r != nil {
			err = fmt.Errorf("reader panicked: %v", r)
			sig = "panic"
		}
	}()

	for _, k := range c.Prelude {
		if e := c19Prelude(k); e != nil {
			return v, "", e
		}
	}
	v.label(len(c.Prelude) > 0, "decoders-ran-before")
	r := reader.NewReader(window)
	pos := 0
	failedRead, okAfterFail, peeks := false, false, 0
	cheap := false
	check := func(i int, what string) error {
		if r.Len() != len(buf)-pos {
			return fmt.Errorf("step %d (%s): Len()=%d, model %d", i, what, r.Len(), len(buf)-pos)
		}
		if r.ReadCount() != pos {
			return fmt.Errorf("step %d (%s): ReadCount()=%d, model %d", i, what, r.ReadCount(), pos)
		}
		if r.Len()+r.ReadCount() != len(buf) {
			return fmt.Errorf("step %d (%s): consumed+remaining=%d, buffer %d", i, what, r.Len()+r.ReadCount(), len(buf))
		}
		if !cheap && !bytes.Equal(back, snapshot) {
			return fmt.Errorf("step %d (%s): reader modified the buffer", i, what)
		}
		return nil
	}
	fixed := func(i int, name string, n int, got uint64, gerr error) error {
		rem := len(buf) - pos
		if rem < n {
			if gerr == nil {
				return fmt.Errorf("step %d: %s with %d octets left succeeded (value %d)", i, name, rem, got)
			}
			failedRead = true
			return nil
		}
		if gerr != nil {
			if r.Len() != rem || r.ReadCount() != pos {
				return fmt.Errorf("step %d: %s with %d octets left failed (%v) and still moved the position: Len()=%d ReadCount()=%d, before the call %d and %d", i, name, rem, gerr, r.Len(), r.ReadCount(), rem, pos)
			}
			return fmt.Errorf("step %d: %s with %d octets left failed: %v", i, name, rem, gerr)
		}
		var want uint64
		for _, b := range buf[pos : pos+n] {
			want = want<<8 | uint64(b)
		}
		if got != want {
			return fmt.Errorf("step %d: %s = %#x, wire (big-endian) %#x", i, name, got, want)
		}
		pos += n
		if failedRead {
			okAfterFail = true
		}
		return nil
	}
	if e := check(-1, "fresh reader"); e != nil {
		return v, "mismatch", e
	}
	var flat []c19Op
	for _, op := range c.Ops {
		n := 1
		if op.Rep > 1 {
			if op.Rep > 1<<20 {
				return v, "", fmt.Errorf("bad case: rep")
			}
			n = op.Rep
			v.label(op.Rep >= 65536, "op-repeated>=65536-times")
		}
		for k := 0; k < n; k++ {
			// Rep of a flat entry: 1 = inside a repetition (the buffer-unmodified comparison is made at its end only)
			fo := c19Op{Op: op.Op, N: op.N}
			if n > 1 && k < n-1 {
				fo.Rep = 1
			}
			flat = append(flat, fo)
		}
	}
	for i, op := range flat {
		var e error
		cheap = op.Rep == 1
		switch op.Op {
		case "u8":
			x, ge := r.Uint8()
			e = fixed(i, "Uint8", 1, uint64(x), ge)
		case "u16":
			x, ge := r.Uint16()
			e = fixed(i, "Uint16", 2, uint64(x), ge)
		case "u32":
			x, ge := r.Uint32()
			e = fixed(i, "Uint32", 4, uint64(x), ge)
		case "u64":
			x, ge := r.Uint64()
			e = fixed(i, "Uint64", 8, x, ge)
		case "read":
			d, ge := r.Read(op.N)
			rem := len(buf) - pos
			if rem < op.N {
				if ge == nil {
					e = fmt.Errorf("step %d: Read(%d) with %d left succeeded", i, op.N, rem)
				} else if len(d) != 0 {
					e = fmt.Errorf("step %d: failed Read(%d) returned %d octets", i, op.N, len(d))
				}
				failedRead = true
			} else {
				if ge != nil && (r.Len() != rem || r.ReadCount() != pos) {
					e = fmt.Errorf("step %d: Read(%d) with %d left failed (%v) and still moved the position: Len()=%d ReadCount()=%d, before the call %d and %d", i, op.N, rem, ge, r.Len(), r.ReadCount(), rem, pos)
				} else if ge != nil {
					e = fmt.Errorf("step %d: Read(%d) with %d left failed: %v", i, op.N, rem, ge)
				} else if !bytes.Equal(d, buf[pos:pos+op.N]) {
					e = fmt.Errorf("step %d: Read(%d) = %x, want %x", i, op.N, d, buf[pos:pos+op.N])
				} else {
					pos += op.N
					if failedRead && op.N > 0 {
						okAfterFail = true
					}
				}
			}
		case "peek":
			peeks++
			d, ge := r.Peek(op.N)
			rem := len(buf) - pos
			if rem < op.N {
				if ge == nil {
					e = fmt.Errorf("step %d: Peek(%d) with %d left succeeded", i, op.N, rem)
				} else if len(d) != 0 {
					e = fmt.Errorf("step %d: failed Peek(%d) returned %d octets", i, op.N, len(d))
				}
			} else if ge != nil {
				e = fmt.Errorf("step %d: Peek(%d) with %d left failed: %v", i, op.N, rem, ge)
			} else if !bytes.Equal(d, buf[pos:pos+op.N]) {
				e = fmt.Errorf("step %d: Peek(%d) = %x, want %x", i, op.N, d, buf[pos:pos+op.N])
			} else if e2 := check(i, "after peek"); e2 != nil {
				e = e2
			} else {
				// peek-then-read agreement: a second peek gives the same octets
				d2, ge2 := r.Peek(op.N)
				if ge2 != nil || !bytes.Equal(d, d2) {
					e = fmt.Errorf("step %d: two successive Peek(%d) disagree", i, op.N)
				}
			}
		case "peek16":
			peeks++
			x, ge := r.PeekUint16()
			rem := len(buf) - pos
			if rem < 2 {
				if ge == nil {
					e = fmt.Errorf("step %d: PeekUint16 with %d left succeeded", i, rem)
				}
			} else if ge != nil {
				e = fmt.Errorf("step %d: PeekUint16 with %d left failed: %v", i, rem, ge)
			} else if x != binary.BigEndian.Uint16(buf[pos:]) {
				e = fmt.Errorf("step %d: PeekUint16 = %#x, want %#x", i, x, binary.BigEndian.Uint16(buf[pos:]))
			}
		case "len", "count":
			// checked below for every step
		case "wait":
			// time passes (N milliseconds): a reader is a view of a buffer, its accounting does not know time
			if op.N < 0 || op.N > 5000 {
				return v, "", fmt.Errorf("bad case: wait")
			}
			time.Sleep(time.Duration(op.N) * time.Millisecond)
			v.label(true, "time-passes-between-operations")
		default:
			return v, "", fmt.Errorf("bad case: op %q", op.Op)
		}
		if e == nil {
			e = check(i, op.Op)
		}
		if e != nil {
			return v, "mismatch", e
		}
	}
	v.NT = okAfterFail && peeks > 0
	v.label(failedRead, "failed-read")
	v.label(okAfterFail, "success-after-failure")
	v.label(peeks > 0, "has-peek")
	v.label(pos == len(buf) && len(buf) > 0, "fully-consumed")
	v.label(len(buf) == 0, "empty-buffer")
	return v, "", nil
}

// c19Prelude lets one of the collector's decoders read a small datagram (complete, or cut inside a record so that the
// decoder stops on a failed read); the outcome is none of C19's business.
func c19Prelude(kind string) error {
	defer func() { recover() }()
	var b []byte
	tpl := wire.Template{ID: 300, Fields: []wire.Field{{ID: 8, Len: 4, Type: wire.TIPv4}, {ID: 7, Len: 2, Type: wire.TUint16}}}
	rec := wire.Record{Vals: []wire.Hex{{10, 0, 0, 1}, {0, 80}}}
	switch strings.TrimSuffix(kind, "-short") {
	case "nf5":
		b = make([]byte, 24+48)
		b[1], b[3] = 5, 1
		netflow5.NewDecoder(net.IP{127, 0, 0, 1}, cutIf(b, kind)).Decode()
	case "ipfix":
		m := wire.Msg{Proto: "ipfix", Seq: 1, Sets: []wire.Set{{Kind: "tpl", Tpls: []wire.Template{tpl}}, {Kind: "data", Tpl: &tpl, Recs: []wire.Record{rec, rec}}}}
		ipfix.NewDecoder(net.IP{127, 0, 0, 1}, cutIf(m.Bytes(), kind)).Decode(ipfix.GetCache(""))
	case "nf9":
		m := wire.Msg{Proto: "nf9", Seq: 1, Sets: []wire.Set{{Kind: "tpl", Tpls: []wire.Template{tpl}}, {Kind: "data", Tpl: &tpl, Recs: []wire.Record{rec, rec}}}}
		netflow9.NewDecoder(net.IP{127, 0, 0, 1}, cutIf(m.Bytes(), kind)).Decode(netflow9.GetCache(""))
	default:
		return fmt.Errorf("bad case: prelude %q", kind)
	}
	return nil
}

func cutIf(b []byte, kind string) []byte {
	if strings.HasSuffix(kind, "-short") && len(b) > 3 {
		return b[:len(b)-3]
	}
	return b
}

func TestC19(t *testing.T) {
	col := getCollector("C19", c19Rule)
	runRegress(t, "C19")
	rapid.Check(t, func(t *rapid.T) {
		c := genC19(t)
		v, sig, err := runC19(c)
		col.report(t, mustJSON(c), v, sig, err)
	})
}

// TestC19Aged: a few sequences per shard in which time passes (20 ms .. 2.1 s) between operations.
func TestC19Aged(t *testing.T) {
	col := getCollector("C19", c19Rule)
	if !strings.Contains(col.Rule, "aged stage") {
		col.Rule += " | aged stage (a few sequences per shard): the same sequences with 1..2 waits of 20 ms .. 2.1 s between operations; all invariants unchanged"
	}
	n := 3
	if os.Getenv("VERIF_TIER") == "thorough" {
		n = 30
	}
	seed := e2eSeed()
	gen := rapid.Custom(func(t *rapid.T) c19Case {
		c := genC19(t)
		for k, nw := 0, rapid.IntRange(1, 2).Draw(t, "nwaits"); k < nw; k++ {
			at := rapid.IntRange(0, len(c.Ops)).Draw(t, "waitat")
			w := c19Op{Op: "wait", N: rapid.SampledFrom([]int{20, 200, 1100, 1300, 2100}).Draw(t, "waitms")}
			c.Ops = append(c.Ops[:at], append([]c19Op{w}, c.Ops[at:]...)...)
		}
		return c
	})
	for i := 0; i < n; i++ {
		c := gen.Example(seed*100 + 80 + i)
		v, sig, err := runC19(c)
		col.report(t, mustJSON(c), v, sig, err)
		col.addExtra("aged_sequences", 1)
		if err != nil {
			return
		}
	}
}

func init() {
	registerReplay("C19", func(raw json.RawMessage) error {
		var c c19Case
		if err := json.Unmarshal(raw, &c); err != nil {
			return err
		}
		_, _, err := runC19(c)
		return err
	})
}
