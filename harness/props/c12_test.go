package props

// C12 — a published message depends only on its own datagram.
// C13 — each received datagram is accounted for and published at most once.
//
// Both drive the real workers, channels and buffer pools of package main through the 'verif' driver and
// compare, per phase, the multiset of published payloads and the DecodedCount delta with a sequential
// decode of every datagram on its own in the harness process (differential oracle).

import (
	"bytes"
	"encoding/hex"
	"encoding/json"
	"fmt"
	"os"
	"regexp"
	"sort"
	"strconv"
	"testing"

	netflow5 "github.com/EdgeCast/vflow/netflow/v5"
	"pgregory.net/rapid"
	"verif/harness/wire"
)

type plDatagram struct {
	Exp   int      `json:"exp"`
	Data  wire.Hex `json:"data"`
	Class string   `json:"class"` // valid | announce | unknown-template | partial | truncated | garbage | corrupted | reserved | mutated | cross
	// Proto: pipeline the datagram is sent to when it is not the case's own (cross traffic: self-contained
	// datagrams of another protocol, decoded by that protocol's own workers in the same process at the same time)
	Proto string `json:"proto,omitempty"`
	// PauseMS > 0: nothing is sent for this long before the datagram (every worker of the pipeline sits idle meanwhile)
	PauseMS int `json:"pause_ms,omitempty"`
}

type plCase struct {
	Proto   string `json:"proto"`
	Workers int    `json:"workers"`
	UDPSize int    `json:"udpsize"`
	// OtherUDPSize: receive buffer size of the three other protocols (0 = same as UDPSize); the settings are independent
	OtherUDPSize int `json:"other_udpsize,omitempty"`
	// Churn > 0: after every Churn-th datagram of a phase the longest-running worker is told to quit and a new one
	// is started while traffic flows (the mechanism dynamic-workers uses to shrink and grow the pool)
	Churn int `json:"churn,omitempty"`
	// LazyDrain: the queue consumer reads only after the phase's workers have finished (slow consumer), so every
	// published message stays queued while the workers go on to decode and encode all later datagrams
	LazyDrain bool `json:"lazy_drain,omitempty"`
	ExactFit  bool `json:"exact_fit,omitempty"` // UDPSize was derived from a datagram's own length
	Verbose   bool `json:"verbose,omitempty"`   // workers log every datagram (verbose: true)
	// Mirror (ipfix, sflow): mirroring is on; the workers queue a copy of every datagram for the mirror, which this
	// rig reads only after each phase (a mirror that has fallen behind or stopped): neither must hold a worker up
	Mirror bool `json:"mirror,omitempty"`
	// MirrorWorkers > 0 (with Mirror): the copies go through the real dispatcher with that many mirror workers, which
	// reads the workers' mirror queue while the phases run (the collector's own wiring); the mirror target is an IPv4
	// address, so copies of datagrams from IPv6 exporters find no mirror worker to take them
	MirrorWorkers int `json:"mirror_workers,omitempty"`
	// Subset: indexes of phases with more than 1000 publishing datagrams, which overflow the message queue (by
	// construction under a slow consumer, possibly otherwise): what is published there must be a sub-multiset of
	// the expected payloads, nothing more
	Subset []int `json:"subset,omitempty"`
	// Unjudged: indexes of phases in which a template is redefined while data of both definitions is in flight on
	// several workers: which datagram meets which definition is the scheduler's choice, so what such a phase publishes
	// is not compared (it must not crash); the phase after it, decoded once everything has settled, is
	Unjudged    []int          `json:"unjudged,omitempty"`
	QuietSpells bool           `json:"quiet_spells,omitempty"` // the last phase has pauses during which all workers sit idle
	Siblings    bool           `json:"siblings,omitempty"`     // the case ends with a flood of related exporters (see genPipeline)
	Filter      []uint32       `json:"filter,omitempty"`
	Exporters   []wire.Hex     `json:"exporters"`
	Phases      [][]plDatagram `json:"phases"`
	Race        bool           `json:"race"` // run on the -race build of the driver
}

const c12Rule = "case = protocol pipeline (ipfix | nf9 | nf5 | sflow), 1..16 real worker goroutines, UDP size (mostly 1500), 1..6 exporters, and phases: announce phases (each template key at most once) " +
	"alternating with data phases of 20..800 datagrams (in a sixth of the IPFIX / NetFlow v9 cases a template is redefined while data of both definitions is in flight on all workers — that phase is not compared, the data that follows once it has settled is; in another sixth an announcement storm: 200..800 keys announced back to back and decoded by all workers at once, then data for every key; a sixth of all cases end with a flood of 1500..5000 small datagrams from two to four *sibling exporters* — the same host number at different sites, host numbers 64 apart, or neighbours — decoded by >= 4 workers at once, IPFIX / NetFlow v9 siblings using one template id with a definition of their own each; another sixth end with a phase that repeats decodable datagrams of the earlier phases with one to three quiet spells of 0.6..2.6 s during which every worker sits idle) with strongly mixed sizes (tens of octets next to ~1400) and unique (exporter, sequence number), incl. identical template refreshes, unknown-template, truncated, corrupted, reserved-id, garbage and oversize datagrams; " +
	"in half of the cases one or two OTHER protocols' pipelines run at the same time on self-contained cross traffic (own workers, pools, queues; their receive buffer size drawn independently), in a third workers are told to quit and are replaced while traffic flows (every 1st..50th datagram); " +
	"injected exactly as the receive loop does (pooled buffer, copy, send on the real UDP channel), real MQ channels drained concurrently or, in half of the cases, only after the workers are joined (slow consumer: a message that aliases a reused buffer is then overwritten for certain), workers joined per phase; half of the cases run on the -race build of the driver; " +
	"oracle = per phase the multiset of published payloads equals, byte for byte, the payloads obtained by decoding each datagram on its own in the harness against a replica cache holding the templates of earlier phases " +
	"(sFlow: after blanking the collection timestamp), for the pipeline under test and for every cross pipeline; no race report, no crash; DecodedCount delta within [decodes without error, decodes returning a message]; " +
	"non-trivial = some data phase has more datagrams than workers and datagram sizes differing by > 4x (a worker reuses buffers across sizes); distinct by hash"

const c13Rule = "case = as C12 (incl. cross traffic on other protocols' pipelines and worker churn) with phases mixing the datagram classes (decodable, partly decodable, template-only, undecodable/unknown-template, malformed) and workers 1..16; " +
	"oracle per phase = published multiset equals { expected payload of d : d yields >= 1 record/sample } with multiplicity exactly 1 (nothing extra, nothing twice, nothing missing, nothing for datagrams not sent); " +
	"DecodedCount delta within [datagrams decoding without error, datagrams whose decode returns a message] (sFlow: [published, datagrams decoding without error]); " +
	"non-trivial = a phase mixes >= 3 datagram classes with >= 2 workers; distinct by hash"

// ---------------------------------------------------------------- generator

type plKey struct {
	exp  int
	tpl  wire.Template
	sets []wire.Set // pre-generated data sets
	ann  []byte     // the announcement datagram (re-sent unchanged as a periodic template refresh)
}

func genPipeline(t *rapid.T, proto string, envs map[string]*wire.GenEnv, maxPhaseLen int, opts ...string) plCase {
	c := plCase{Proto: proto}
	forceOverflow, e2e := false, false
	for _, o := range opts {
		forceOverflow = forceOverflow || o == "overflow"
		e2e = e2e || o == "e2e" // the end-to-end rig compares everything that reaches the sink: no unjudged phases
	}
	c.Workers = rapid.OneOf(rapid.IntRange(1, 4), rapid.IntRange(1, 16)).Draw(t, "workers")
	c.UDPSize = rapid.SampledFrom([]int{1500, 1500, 1500, 1500, 600, 2048, 9000, 9000, 65535}).Draw(t, "udpsize")
	c.Race = rapid.Bool().Draw(t, "race")
	c.LazyDrain = rapid.Bool().Draw(t, "lazydrain")
	if proto == "ipfix" || proto == "sflow" {
		c.Mirror = rapid.IntRange(0, 3).Draw(t, "mirror") == 0
	}
	c.Verbose = rapid.IntRange(0, 3).Draw(t, "verbose") == 0
	if rapid.IntRange(0, 2).Draw(t, "withchurn") == 0 {
		c.Churn = rapid.SampledFrom([]int{1, 2, 3, 7, 20, 50}).Draw(t, "churn")
	}
	ne := rapid.IntRange(1, 6).Draw(t, "nexp")
	seen := map[string]bool{}
	for len(c.Exporters) < ne {
		a := wire.GenExporter(t)
		if seen[mapped4(a)] {
			continue
		}
		seen[mapped4(a)] = true
		c.Exporters = append(c.Exporters, a)
	}
	seq := uint32(1000)
	nextSeq := func() uint32 { seq++; return seq }
	garbage := func() []byte {
		switch rapid.IntRange(0, 3).Draw(t, "gkind") {
		case 0:
			return []byte{}
		case 1:
			return []byte{0, 99, 1, 2, 3}
		case 2:
			n := rapid.IntRange(1, 15).Draw(t, "gshort")
			b := rapid.SliceOfN(rapid.Byte(), n, n).Draw(t, "gbytes")
			return b
		}
		n := rapid.IntRange(16, 200).Draw(t, "glen")
		b := rapid.SliceOfN(rapid.Byte(), n, n).Draw(t, "gbytes")
		b[0], b[1] = 0xde, 0xad // no valid version
		return b
	}
	// cross traffic: other protocols' pipelines (their own workers, pools and queues) are busy in the same process
	var crossProtos []string
	if rapid.Bool().Draw(t, "cross") {
		for _, p := range rapid.Permutation([]string{"ipfix", "nf9", "nf5", "sflow"}).Draw(t, "crossprotos") {
			if p != proto && len(crossProtos) < 2 {
				crossProtos = append(crossProtos, p)
			}
		}
		crossProtos = crossProtos[:rapid.IntRange(1, 2).Draw(t, "ncross")]
		c.OtherUDPSize = rapid.SampledFrom([]int{0, 600, 1024, 1500, 2048, 9000}).Draw(t, "otherudpsize")
	}
	crossTpl := map[string]wire.Template{}
	crossDatagram := func() plDatagram {
		cp := crossProtos[rapid.IntRange(0, len(crossProtos)-1).Draw(t, "crossproto")]
		exp := rapid.IntRange(0, ne-1).Draw(t, "crossexp")
		var b []byte
		switch cp {
		case "nf5":
			pk := wire.GenNF5(t)
			pk.Seq = nextSeq()
			b = pk.Bytes()
		case "sflow":
			d := wire.GenSFDatagram(t)
			d.Seq = nextSeq()
			b = d.Bytes()
		default:
			// self-contained: template and data in one message; one definition per (protocol, exporter), so the
			// cache content does not depend on the order in which these messages are decoded
			env := envs[cp]
			k := fmt.Sprint(cp, exp)
			tp, ok := crossTpl[k]
			if !ok {
				tp = env.GenTemplate(t, wire.GenTemplateID(t))
				crossTpl[k] = tp
			}
			kind := "tpl"
			if tp.Options {
				kind = "opt"
			}
			var m wire.Msg
			m.Proto, m.Time, m.Domain, m.Count = cp, 1700000000, uint32(exp), 1
			m.Seq = nextSeq()
			m.Sets = []wire.Set{{Kind: kind, Tpls: []wire.Template{tp}}, env.GenDataSet(t, &tp, rapid.SampledFrom([]int{1, 3, 20, 60}).Draw(t, "crossrecs"))}
			b = m.Bytes()
		}
		return plDatagram{Exp: exp, Data: b, Class: "cross", Proto: cp}
	}
	withCross := func(data []plDatagram) []plDatagram {
		if len(crossProtos) == 0 {
			return data
		}
		out := make([]plDatagram, 0, len(data)*3/2)
		for _, d := range data {
			for rapid.IntRange(0, 3).Draw(t, "crossnow") == 0 {
				out = append(out, crossDatagram())
			}
			out = append(out, d)
		}
		return out
	}
	nphases := rapid.IntRange(1, 3).Draw(t, "nphases")
	phaseLen := func() int {
		return rapid.OneOf(rapid.IntRange(20, 120), rapid.IntRange(20, maxPhaseLen)).Draw(t, "phaselen")
	}
	switch proto {
	case "ipfix", "nf9":
		env := envs[proto]
		var keys []plKey
		usedID := map[string]bool{}
		weirdID, weirdExp := uint16(0), 0
		for p := 0; p < nphases; p++ {
			// announce phase: new keys (and re-announcements of existing ones with a new definition)
			var ann []plDatagram
			nnew := rapid.IntRange(1, 4).Draw(t, "nnewkeys")
			if p > 0 {
				nnew = rapid.IntRange(0, 2).Draw(t, "nnewkeys2")
			}
			touched := map[int]bool{}
			for i := 0; i < nnew; i++ {
				exp := rapid.IntRange(0, ne-1).Draw(t, "kexp")
				id := wire.GenTemplateID(t)
				for usedID[fmt.Sprint(exp, id)] {
					id++
					if id < 256 {
						id = 256
					}
				}
				usedID[fmt.Sprint(exp, id)] = true
				keys = append(keys, plKey{exp: exp, tpl: env.GenTemplate(t, id)})
				touched[len(keys)-1] = true
			}
			if p > 0 && len(keys) > 0 && rapid.Bool().Draw(t, "reannounce") {
				k := rapid.IntRange(0, len(keys)-1).Draw(t, "rekey")
				keys[k].tpl = env.GenTemplate(t, keys[k].tpl.ID)
				keys[k].sets = nil
				touched[k] = true
			}
			for k := range keys {
				if !touched[k] {
					continue
				}
				key := &keys[k]
				var m wire.Msg
				env.GenHeader(t, &m)
				m.Seq = nextSeq()
				kind := "tpl"
				if key.tpl.Options {
					kind = "opt"
				}
				m.Sets = []wire.Set{{Kind: kind, Tpls: []wire.Template{key.tpl}}}
				key.ann = m.Bytes()
				ann = append(ann, plDatagram{Exp: key.exp, Data: key.ann, Class: "announce"})
				// pre-generate data sets of different sizes for this key
				ns := rapid.IntRange(2, 4).Draw(t, "npregen")
				for s := 0; s < ns; s++ {
					tp := key.tpl
					key.sets = append(key.sets, env.GenDataSet(t, &tp, rapid.SampledFrom([]int{1, 3, 20, 60}).Draw(t, "maxrecs")))
				}
			}
			// an adversarially shaped template under an id of its own (field lengths whose sum wraps around 16 bits,
			// huge or zero lengths): whatever the decoder makes of it and of data naming it, every worker must make
			// the same of it as a decode on its own does
			if weirdID == 0 && len(keys) > 0 && rapid.IntRange(0, 3).Draw(t, "weirdtpl") == 0 {
				wexp := keys[0].exp
				id := uint16(60000)
				for usedID[fmt.Sprint(wexp, id)] {
					id++
				}
				usedID[fmt.Sprint(wexp, id)] = true
				weirdID, weirdExp = id, wexp
				k := uint16(rapid.IntRange(1, 40).Draw(t, "wrapk"))
				lens := rapid.SampledFrom([][]uint16{{32768, 32768 + k}, {0x7fff, 0x7fff, 2 + k}, {65534, 2 + k}, {65535, 65535}, {0, 0, k}, {40000, 40000, k}, {16384, 16384, 16384, 16384 + k}}).Draw(t, "wraplens")
				if proto == "ipfix" {
					for i := range lens {
						if lens[i] == 65535 {
							lens[i] = 65534 // 65535 is the variable-length marker there
						}
					}
				}
				wt := wire.Template{ID: id}
				for i, l := range lens {
					wt.Fields = append(wt.Fields, wire.Field{ID: uint16(1 + i), Len: l, Type: wire.TOctetArray})
				}
				var m wire.Msg
				env.GenHeader(t, &m)
				m.Seq = nextSeq()
				m.Sets = []wire.Set{{Kind: "tpl", Tpls: []wire.Template{wt}}}
				ann = append(ann, plDatagram{Exp: wexp, Data: m.Bytes(), Class: "weird-announce"})
			}
			if len(ann) > 0 {
				c.Phases = append(c.Phases, ann)
			}
			// data phase
			n := phaseLen()
			var data []plDatagram
			for i := 0; i < n; i++ {
				key := &keys[rapid.IntRange(0, len(keys)-1).Draw(t, "dkey")]
				var m wire.Msg
				m.Proto, m.Time, m.Domain, m.Count = proto, 1700000000, uint32(key.exp), 1
				m.Seq = nextSeq()
				nsets := rapid.SampledFrom([]int{1, 1, 2, 3, 6}).Draw(t, "nsets")
				if c.UDPSize >= 9000 && rapid.IntRange(0, 11).Draw(t, "jumbo") == 0 {
					// jumbo datagrams (several KB of records, tens to hundreds of KB of JSON)
					nsets = rapid.SampledFrom([]int{8, 12, 20, 40}).Draw(t, "jumbosets")
				}
				for s := 0; s < nsets; s++ {
					m.Sets = append(m.Sets, key.sets[rapid.IntRange(0, len(key.sets)-1).Draw(t, "whichset")])
				}
				b := m.Bytes()
				class := "valid"
				switch rapid.IntRange(0, 19).Draw(t, "dclass") {
				case 0:
					// data for a template this exporter never announced
					id := key.tpl.ID ^ 0x2000
					if id < 256 {
						id += 256
					}
					if !usedID[fmt.Sprint(key.exp, id)] {
						um := m
						um.Sets = []wire.Set{{Kind: "raw", RawID: id, RawBody: rapid.SliceOfN(rapid.Byte(), 4, 40).Draw(t, "ubody")}}
						b, class = um.Bytes(), "unknown-template"
					}
				case 1:
					hl := 16
					if proto == "nf9" {
						hl = 20
					}
					if len(b) > hl+1 {
						b, class = b[:rapid.IntRange(hl, len(b)-1).Draw(t, "cut")], "truncated"
					}
				case 2:
					b, class = garbage(), "garbage"
				case 3:
					// corrupt record octets only (set headers stay intact, so no template can be installed)
					offs := m.SetOffsets()
					o := offs[rapid.IntRange(0, len(offs)-1).Draw(t, "corruptset")]
					if o[1]-o[0] > 4 {
						b = append([]byte{}, b...)
						pos := rapid.IntRange(o[0]+4, o[1]-1).Draw(t, "corruptpos")
						b[pos] ^= byte(rapid.IntRange(1, 255).Draw(t, "corruptxor"))
						class = "corrupted"
					}
				case 8:
					if weirdID != 0 {
						// data naming the adversarially shaped template, next to sets of a sane one
						wm := m
						raw := wire.Set{Kind: "raw", RawID: weirdID, RawBody: rapid.SliceOfN(rapid.Byte(), 4, 120).Draw(t, "wbody")}
						if key.exp == weirdExp && rapid.Bool().Draw(t, "wmixed") {
							wm.Sets = append(append([]wire.Set{}, m.Sets...), raw)
						} else {
							wm.Domain = uint32(weirdExp)
							wm.Sets = []wire.Set{raw}
						}
						b, class = wm.Bytes(), "weird-data"
						if len(wm.Sets) == 1 {
							data = append(data, plDatagram{Exp: weirdExp, Data: b, Class: class})
							continue
						}
					}
				case 5, 6:
					// periodic template refresh: the identical announcement again, concurrently with data that uses
					// the template (the cache content does not change, so the phase stays order-independent)
					b, class = key.ann, "refresh"
				case 7:
					// partly decodable: the sets of a known template together with a set of a template this exporter
					// never announced (in front or behind) — records are delivered, an error is reported as well
					id := key.tpl.ID ^ 0x2000
					if id < 256 {
						id += 256
					}
					if !usedID[fmt.Sprint(key.exp, id)] {
						pm := m
						raw := wire.Set{Kind: "raw", RawID: id, RawBody: rapid.SliceOfN(rapid.Byte(), 4, 40).Draw(t, "pbody")}
						if rapid.Bool().Draw(t, "pfront") {
							pm.Sets = append([]wire.Set{raw}, m.Sets...)
						} else {
							pm.Sets = append(append([]wire.Set{}, m.Sets...), raw)
						}
						b, class = pm.Bytes(), "partial"
					}
				case 4:
					rm := m
					rm.Sets = append([]wire.Set{{Kind: "raw", RawID: uint16(rapid.IntRange(4, 255).Draw(t, "rid")), RawBody: rapid.SliceOfN(rapid.Byte(), 0, 30).Draw(t, "rbody")}}, m.Sets...)
					b, class = rm.Bytes(), "reserved"
				}
				data = append(data, plDatagram{Exp: key.exp, Data: b, Class: class})
			}
			c.Phases = append(c.Phases, withCross(data))
		}
		if !forceOverflow && !e2e && rapid.IntRange(0, 5).Draw(t, "redefinflight") == 0 {
			// a template is redefined (another number of fields) while data of the old and of the new definition is in
			// flight on all workers; once that has settled, data of the new definition must decode by it
			exp := rapid.IntRange(0, ne-1).Draw(t, "rifexp")
			id := uint16(27000)
			for usedID[fmt.Sprint(exp, id)] {
				id++
			}
			usedID[fmt.Sprint(exp, id)] = true
			oldT := wire.Template{ID: id, Fields: []wire.Field{{ID: 8, Len: 4, Type: wire.TIPv4}, {ID: 12, Len: 4, Type: wire.TIPv4}}}
			newT := wire.Template{ID: id, Fields: []wire.Field{{ID: 1, Len: 8, Type: wire.TUint64}, {ID: 2, Len: 8, Type: wire.TUint64}, {ID: 10, Len: 4, Type: wire.TUint32}}}
			msgOf := func(tp *wire.Template, announce bool, k int) plDatagram {
				m := wire.Msg{Proto: proto, Seq: nextSeq(), Time: 1700000002, Domain: uint32(exp), Count: 1}
				if announce {
					m.Sets = []wire.Set{{Kind: "tpl", Tpls: []wire.Template{*tp}}}
					return plDatagram{Exp: exp, Data: m.Bytes(), Class: "announce"}
				}
				rec := wire.Record{}
				for _, f := range tp.Fields {
					v := make([]byte, f.Len)
					v[len(v)-1], v[0] = byte(k), byte(k>>8)
					rec.Vals = append(rec.Vals, v)
				}
				m.Sets = []wire.Set{{Kind: "data", Tpl: tp, Recs: []wire.Record{rec}}}
				return plDatagram{Exp: exp, Data: m.Bytes(), Class: "valid"}
			}
			c.Phases = append(c.Phases, []plDatagram{msgOf(&oldT, true, 0)})
			var mid []plDatagram
			n := rapid.IntRange(10, 60).Draw(t, "rifn")
			for k := 0; k < n; k++ {
				mid = append(mid, msgOf(&oldT, false, k))
			}
			mid = append(mid, msgOf(&newT, true, 0))
			for k := 0; k < n; k++ {
				mid = append(mid, msgOf(&newT, false, k))
			}
			c.Unjudged = append(c.Unjudged, len(c.Phases))
			c.Phases = append(c.Phases, mid)
			var after []plDatagram
			for k := 0; k < 8; k++ {
				after = append(after, msgOf(&newT, false, 100+k))
			}
			c.Phases = append(c.Phases, after)
		}
		if !forceOverflow && rapid.IntRange(0, 5).Draw(t, "storm") == 0 {
			// an announcement storm: several hundred (exporter, id) keys announced back to back (exporters coming up after
			// an outage), decoded by all workers at once, then one data datagram for every key: each announcement counts
			nk := rapid.SampledFrom([]int{200, 400, 800}).Draw(t, "stormkeys")
			var ann, data []plDatagram
			for i := 0; i < nk; i++ {
				exp := i % ne
				id := uint16(20000 + i/ne)
				for usedID[fmt.Sprint(exp, id)] {
					id += 5000
				}
				usedID[fmt.Sprint(exp, id)] = true
				tp := wire.Template{ID: id, Fields: []wire.Field{{ID: 8, Len: 4, Type: wire.TIPv4}, {ID: 12, Len: 4, Type: wire.TIPv4}}}
				if i%3 == 1 {
					tp.Fields = append(tp.Fields, wire.Field{ID: 1, Len: 8, Type: wire.TUint64})
				}
				am := wire.Msg{Proto: proto, Seq: nextSeq(), Time: 1700000000, Domain: uint32(exp), Count: 1, Sets: []wire.Set{{Kind: "tpl", Tpls: []wire.Template{tp}}}}
				ann = append(ann, plDatagram{Exp: exp, Data: am.Bytes(), Class: "announce"})
				rec := wire.Record{Vals: []wire.Hex{{10, byte(i >> 8), byte(i), 1}, {10, byte(i >> 8), byte(i), 2}}}
				if i%3 == 1 {
					rec.Vals = append(rec.Vals, wire.Hex{0, 0, 0, 0, 0, 0, byte(i >> 8), byte(i)})
				}
				dm := wire.Msg{Proto: proto, Seq: nextSeq(), Time: 1700000001, Domain: uint32(exp), Count: 1, Sets: []wire.Set{{Kind: "data", Tpl: &tp, Recs: []wire.Record{rec}}}}
				data = append(data, plDatagram{Exp: exp, Data: dm.Bytes(), Class: "valid"})
			}
			c.Phases = append(c.Phases, ann, data)
		}
		if forceOverflow || rapid.IntRange(0, 11).Draw(t, "overflow") == 0 {
			// queue overflow: with a slow consumer more than 1000 publishing datagrams fill the message queue; what
			// is dropped then is dropped (the property's "queue not full" precondition), but a template announced
			// while the queue is full is still the exporter's latest template
			c.LazyDrain = true
			exp := rapid.IntRange(0, ne-1).Draw(t, "ovexp")
			mk := func() *plKey {
				id := wire.GenTemplateID(t)
				for usedID[fmt.Sprint(exp, id)] {
					id++
					if id < 256 {
						id = 256
					}
				}
				usedID[fmt.Sprint(exp, id)] = true
				return &plKey{exp: exp, tpl: env.GenTemplate(t, id)}
			}
			announce := func(k *plKey) plDatagram {
				var m wire.Msg
				env.GenHeader(t, &m)
				m.Seq = nextSeq()
				kind := "tpl"
				if k.tpl.Options {
					kind = "opt"
				}
				m.Sets = []wire.Set{{Kind: kind, Tpls: []wire.Template{k.tpl}}}
				return plDatagram{Exp: k.exp, Data: m.Bytes(), Class: "announce"}
			}
			dataFor := func(k *plKey) plDatagram {
				var m wire.Msg
				m.Proto, m.Time, m.Domain, m.Count = proto, 1700000000, uint32(k.exp), 1
				m.Seq = nextSeq()
				tp := k.tpl
				m.Sets = []wire.Set{env.GenDataSet(t, &tp, 1)}
				return plDatagram{Exp: k.exp, Data: m.Bytes(), Class: "valid"}
			}
			filler, victim := mk(), mk()
			c.Phases = append(c.Phases, []plDatagram{announce(filler), announce(victim)})
			var flood []plDatagram
			one := dataFor(filler)
			for i, n := 0, rapid.IntRange(1040, 1150).Draw(t, "ovn"); i < n; i++ {
				d := one
				if i%8 == 0 {
					d = dataFor(filler)
				}
				flood = append(flood, d)
			}
			// the victim's template is redefined while the queue is full
			victim.tpl = env.GenTemplate(t, victim.tpl.ID)
			flood = append(flood, announce(victim), announce(victim))
			c.Subset = append(c.Subset, len(c.Phases))
			// the other protocols' pipelines go on next to the overflowing one: their queues are far from full
			c.Phases = append(c.Phases, withCross(flood))
			var after []plDatagram
			for i := 0; i < 12; i++ {
				after = append(after, dataFor(victim), dataFor(filler))
			}
			c.Phases = append(c.Phases, withCross(after))
		}
	case "nf5":
		for p := 0; p < nphases; p++ {
			n := phaseLen()
			var data []plDatagram
			for i := 0; i < n; i++ {
				exp := rapid.IntRange(0, ne-1).Draw(t, "exp")
				pk := wire.GenNF5(t)
				pk.Seq = nextSeq()
				class := "valid"
				if pk.ExpectFlows() == nil {
					class = "mutated"
				}
				b := pk.Bytes()
				if rapid.IntRange(0, 19).Draw(t, "garb") == 0 {
					b, class = garbage(), "garbage"
				}
				data = append(data, plDatagram{Exp: exp, Data: b, Class: class})
			}
			c.Phases = append(c.Phases, withCross(data))
		}
	case "sflow":
		if rapid.IntRange(0, 3).Draw(t, "withfilter") == 0 {
			c.Filter = genFilter(t)
		}
		for p := 0; p < nphases; p++ {
			n := phaseLen()
			if n > 300 {
				n = 300
			}
			var data []plDatagram
			for i := 0; i < n; i++ {
				exp := rapid.IntRange(0, ne-1).Draw(t, "exp")
				d := wire.GenSFDatagram(t)
				d.Seq = nextSeq()
				b := d.Bytes()
				class := "valid"
				switch rapid.IntRange(0, 9).Draw(t, "sclass") {
				case 0:
					b, _ = wire.Mutate(t, b, d.StructuralOffsets(), 4, nil)
					class = "mutated"
				case 1:
					b, class = garbage(), "garbage"
				case 2:
					if len(b) > 30 {
						b, class = b[:rapid.IntRange(28, len(b)-1).Draw(t, "cut")], "truncated"
					}
				}
				data = append(data, plDatagram{Exp: exp, Data: b, Class: class})
			}
			c.Phases = append(c.Phases, withCross(data))
		}
		if c.Mirror && rapid.Bool().Draw(t, "mirrorflood") {
			// more datagrams than the mirror queue holds (1000) while nobody reads it: the workers must drop the
			// copies, not wait for room
			c.LazyDrain = false
			var flood []plDatagram
			for i, n := 0, rapid.IntRange(1030, 1150).Draw(t, "mfn"); i < n; i++ {
				d := wire.SFDatagram{Agent: []byte{10, 9, byte(i >> 8), byte(i)}, Seq: nextSeq(), Samples: []wire.SFSample{{Kind: "counter",
					Counter: &wire.SFCounter{Seq: uint32(i), Recs: []wire.SFCounterRec{{Kind: "proc", Vals: []uint64{1, 2, 3, 4, uint64(i)}}}}}}}
				flood = append(flood, plDatagram{Exp: i % ne, Data: d.Bytes(), Class: "valid"})
			}
			// 1000+ publishing datagrams may also outrun the queue consumer: sub-multiset oracle for this phase
			c.Subset = append(c.Subset, len(c.Phases))
			c.Phases = append(c.Phases, flood)
		}
	}
	if proto == "ipfix" && c.Mirror && rapid.Bool().Draw(t, "mirrorbacklog") {
		// the mirror is configured for the other address family than one busy exporter's: more than a thousand of
		// its copies find no taker, then datagrams of strongly different sizes follow: whatever becomes of the copies,
		// every datagram is received, decoded and published as if mirroring were off
		c.MirrorWorkers = rapid.SampledFrom([]int{1, 2, 5}).Draw(t, "mirrorworkers")
		c.LazyDrain = false
		c.Exporters = append(c.Exporters, wire.Hex{0x20, 0x01, 0x0d, 0xb8, 0, 0, 0, 0, 0, 0, 0, 0, 0, 0, 0, 0x77})
		v6 := len(c.Exporters) - 1
		selfContained := func(id uint16, nrec int) []byte {
			tp := wire.Template{ID: id, Fields: []wire.Field{{ID: 8, Len: 4, Type: wire.TIPv4}, {ID: 12, Len: 4, Type: wire.TIPv4}, {ID: 1, Len: 8, Type: wire.TUint64}, {ID: 2, Len: 8, Type: wire.TUint64}}}
			var recs []wire.Record
			for r := 0; r < nrec; r++ {
				recs = append(recs, wire.Record{Vals: []wire.Hex{{10, 7, byte(r), 1}, {10, 8, byte(r), 2}, {0, 0, 0, 0, 0, 0, byte(id), byte(r)}, {0, 0, 0, 0, 0, 0, 1, byte(r)}}})
			}
			m := wire.Msg{Proto: "ipfix", Seq: nextSeq(), Time: 1700000000, Domain: 6, Sets: []wire.Set{{Kind: "tpl", Tpls: []wire.Template{tp}}, {Kind: "data", Tpl: &tp, Recs: recs}}}
			return m.Bytes()
		}
		var flood []plDatagram
		for i, n := 0, rapid.IntRange(1030, 1150).Draw(t, "mbn"); i < n; i++ {
			flood = append(flood, plDatagram{Exp: v6, Data: selfContained(50000, 1), Class: "valid"})
		}
		c.Subset = append(c.Subset, len(c.Phases))
		c.Phases = append(c.Phases, flood)
		var mixed []plDatagram
		for i, n := 0, rapid.IntRange(40, 300).Draw(t, "mbmixed"); i < n; i++ {
			mixed = append(mixed, plDatagram{Exp: v6, Data: selfContained(50001, 1), Class: "valid"}, plDatagram{Exp: v6, Data: selfContained(50002, 20), Class: "valid"})
		}
		c.Phases = append(c.Phases, mixed)
	}
	// sibling exporters: two to four exporters whose addresses are related the way addresses in a network are (the
	// same host number at every site, host numbers 64 apart, neighbours) send small datagrams at the same time, so
	// that all workers decode datagrams of different exporters at the same moment for thousands of datagrams. Every
	// published message must name the exporter its datagram came from and be decoded with that exporter's templates:
	// anything a worker keeps per exporter (or per something derived from the address) must not leak to its siblings.
	if !e2e && rapid.IntRange(0, 5).Draw(t, "siblings") == 0 {
		c.Siblings = true
		base := rapid.SliceOfN(rapid.Byte(), 4, 4).Draw(t, "sibbase")
		nsib := rapid.IntRange(2, 4).Draw(t, "nsib")
		sibKind := rapid.IntRange(0, 2).Draw(t, "sibkind")
		first := len(c.Exporters)
		for i := 0; i < nsib; i++ {
			a := wire.Hex{base[0], base[1], base[2], base[3]}
			switch sibKind {
			case 0: // the same host number at every site
				a[2] = base[2] + byte(i)
			case 1: // host numbers 64 apart
				a[3] = base[3] + byte(64*i)
			default: // neighbours
				a[3] = base[3] + byte(i)
			}
			c.Exporters = append(c.Exporters, a)
		}
		if c.Workers < 4 {
			c.Workers = rapid.IntRange(4, 16).Draw(t, "sibworkers")
		}
		c.LazyDrain = false
		sibDatagram := func(i int) []byte {
			a := c.Exporters[first+i]
			switch proto {
			case "nf5":
				rec := make([]byte, 48)
				copy(rec, a)
				rec[7], rec[19] = byte(i), 1
				pk := wire.NF5Packet{Version: 5, Count: 1, UnixSecs: 1700000000, Seq: nextSeq(), EngID: byte(i), Recs: []wire.Hex{rec}}
				return pk.Bytes()
			case "sflow":
				d := wire.SFDatagram{Agent: a, SubID: uint32(i), Seq: nextSeq(), Samples: []wire.SFSample{{Kind: "counter",
					Counter: &wire.SFCounter{Seq: uint32(i), Recs: []wire.SFCounterRec{{Kind: "proc", Vals: []uint64{1, 2, 3, 4, uint64(i)}}}}}}}
				return d.Bytes()
			}
			// self-contained, one template id for all siblings, a definition of its own per sibling
			all := []wire.Field{{ID: 8, Len: 4, Type: wire.TIPv4}, {ID: 12, Len: 4, Type: wire.TIPv4}, {ID: 1, Len: 8, Type: wire.TUint64}, {ID: 2, Len: 8, Type: wire.TUint64}, {ID: 7, Len: 2, Type: wire.TUint16}}
			vals := []wire.Hex{{a[0], a[1], a[2], a[3]}, {10, 8, byte(i), 2}, {0, 0, 0, 0, 0, 0, 0, byte(i)}, {0, 0, 0, 0, 0, 0, 1, byte(i)}, {0, byte(i)}}
			tp := wire.Template{ID: 51000, Fields: all[:2+i]}
			var m wire.Msg
			m.Proto, m.Time, m.Domain, m.Count = proto, 1700000000, 7, 1
			m.Seq = nextSeq()
			m.Sets = []wire.Set{{Kind: "tpl", Tpls: []wire.Template{tp}}, {Kind: "data", Tpl: &tp, Recs: []wire.Record{{Vals: vals[:2+i]}}}}
			return m.Bytes()
		}
		var flood []plDatagram
		for i, n := 0, rapid.IntRange(1500, 5000).Draw(t, "sibn"); i < n; i++ {
			flood = append(flood, plDatagram{Exp: first + i%nsib, Data: sibDatagram(i % nsib), Class: "valid"})
		}
		// thousands of publishing datagrams may outrun the queue consumer: sub-multiset oracle for this phase
		c.Subset = append(c.Subset, len(c.Phases))
		c.Phases = append(c.Phases, flood)
	}
	// quiet spells: a last phase repeats up to forty decodable datagrams of the earlier phases with one to three pauses
	// of 0.6..2.6 s (4 s at most) in between, during which every worker sits idle: what a datagram is decoded and
	// published as does not depend on how long its worker has had nothing to do (idle timers, periodic housekeeping,
	// buffers let go of after a while)
	if !e2e && rapid.IntRange(0, 5).Draw(t, "quietspells") == 0 {
		var pool []plDatagram
		for _, ph := range c.Phases {
			for _, d := range ph {
				if d.Proto == "" && (d.Class == "valid" || d.Class == "partial") && len(d.Data) <= 60000 {
					pool = append(pool, d)
				}
			}
		}
		if len(pool) > 0 {
			var quiet []plDatagram
			for i, n := 0, rapid.IntRange(6, 40).Draw(t, "nquiet"); i < n; i++ {
				quiet = append(quiet, pool[rapid.IntRange(0, len(pool)-1).Draw(t, "quietpick")])
			}
			total := 0
			for k, np := 0, rapid.IntRange(1, 3).Draw(t, "nspells"); k < np; k++ {
				ms := rapid.SampledFrom([]int{600, 800, 1100, 1600, 2600}).Draw(t, "spellms")
				if total+ms > 4000 {
					continue
				}
				total += ms
				quiet[rapid.IntRange(1, len(quiet)-1).Draw(t, "spellat")].PauseMS += ms
			}
			// what a worker holds on to when it goes idle depends on what it did last: in half of the cases every worker
			// has (in all likelihood) just handled the largest datagram of the case when a spell begins
			big := -1
			for i := range pool {
				if len(pool[i].Data) >= 4000 && (big < 0 || len(pool[i].Data) > len(pool[big].Data)) {
					big = i
				}
			}
			if big >= 0 && rapid.Bool().Draw(t, "bigbeforespell") {
				var out []plDatagram
				for _, d := range quiet {
					if d.PauseMS > 0 {
						for k := 0; k < 2*c.Workers && k < 32; k++ {
							out = append(out, pool[big])
						}
					}
					out = append(out, d)
				}
				quiet = out
			}
			c.QuietSpells = true
			c.Phases = append(c.Phases, quiet)
		}
	}
	// boundary of the receive buffer: its size is set to the length of one of the case's own datagrams (or one
	// octet less / more), so some datagrams fill the buffer exactly, some are cut by one octet, some just fit
	if rapid.IntRange(0, 2).Draw(t, "exactfit") == 0 {
		var lens []int
		for _, ph := range c.Phases {
			for _, d := range ph {
				if d.Proto == "" && (d.Class == "valid" || d.Class == "partial" || d.Class == "mutated") && len(d.Data) >= 64 && len(d.Data) <= 9000 {
					lens = append(lens, len(d.Data))
				}
			}
		}
		if len(lens) > 0 {
			c.UDPSize = lens[rapid.IntRange(0, len(lens)-1).Draw(t, "fitwhich")] + rapid.SampledFrom([]int{0, 0, 0, -1, 1}).Draw(t, "fitdelta")
			c.ExactFit = true
		}
	}
	return c
}

// ---------------------------------------------------------------- sequential reference

var colTimeRe = regexp.MustCompile(`"ColTime":-?\d+`)

func normPayload(proto string, b []byte) string {
	if proto == "sflow" {
		return string(colTimeRe.ReplaceAll(b, []byte(`"ColTime":0`)))
	}
	return string(b)
}

type seqOutcome struct {
	msg       bool   // decode returned a message
	clean     bool   // ... and no error
	published bool   // yields >= 1 record / sample
	payload   string // expected published payload (normalised)
}

// sequentialDecode decodes one datagram on its own, the way a worker would, in the harness process.
func sequentialDecode(proto string, replica *flowCache, addr []byte, data []byte, filter []uint32) (o seqOutcome, err error) {
	switch proto {
	case "ipfix", "nf9":
		res, perr := replica.decodeFlow(wire.ExactIP(addr), data)
		if perr != nil {
			return o, perr
		}
		o.msg, o.clean = !res.Nil, !res.Nil && res.Err == nil
		if !res.Nil && len(res.Recs) > 0 {
			js, merr, mperr := res.marshal()
			if mperr != nil {
				return o, mperr
			}
			if merr != nil {
				// the worker drops a message it can not encode: a datagram with records and no message
				return o, fmt.Errorf("a datagram that yields %d records can not be encoded (the worker publishes nothing for it): %v", len(res.Recs), merr)
			}
			o.published, o.payload = true, string(js)
		}
	case "nf5":
		m, derr := netflow5.NewDecoder(wire.ExactIP(addr), data).Decode()
		o.msg, o.clean = m != nil, m != nil && derr == nil
		if m != nil && len(m.Flows) > 0 {
			js, e := m.JSONMarshal(new(bytes.Buffer))
			if e == nil {
				o.published, o.payload = true, string(js)
			}
		}
	case "sflow":
		d, derr, perr := decodeSFlow(data, filter)
		if perr != nil {
			return o, perr
		}
		o.msg, o.clean = d != nil, d != nil && derr == nil
		if derr == nil && d != nil && len(d.Samples)+len(d.Counters) > 0 {
			js, e := json.Marshal(d)
			if e == nil {
				o.published, o.payload = true, normPayload("sflow", js)
			}
		}
	}
	return o, nil
}

// ---------------------------------------------------------------- execution

func toDrvPhase(c *plCase, ph []plDatagram) []drvDatagram {
	out := make([]drvDatagram, 0, len(ph))
	for i, d := range ph {
		out = append(out, drvDatagram{Addr: hex.EncodeToString(c.Exporters[d.Exp]), Port: 2000 + i%1000, Data: hex.EncodeToString(d.Data), Proto: d.Proto, PauseMS: d.PauseMS})
	}
	return out
}

func runPipeline(prop string, c *plCase) (v verdict, sig string, err error) {
	if c.Workers < 1 || c.UDPSize < 1 || len(c.Exporters) == 0 {
		return v, "", fmt.Errorf("bad case")
	}
	req := drvRequest{Op: "pipeline", Proto: c.Proto, Workers: c.Workers, UDPSize: c.UDPSize, OtherUDPSize: c.OtherUDPSize, Churn: c.Churn, LazyDrain: c.LazyDrain, Verbose: c.Verbose, Filter: c.Filter, ResetCache: true}
	if c.Mirror {
		shard, _ := strconv.Atoi(os.Getenv("VERIF_SHARD_INDEX"))
		req.Mirror, req.MirrorDst, req.MirrorPort = true, fmt.Sprintf("127.%d.250.9", 1+shard%200), 9
		v.label(true, "mirroring-on")
		if c.MirrorWorkers > 0 {
			req.MirrorWorkers, req.MirrorLive = c.MirrorWorkers, true
			v.label(true, "mirror-dispatcher-with-a-backlog-nobody-takes")
		}
	}
	for _, ph := range c.Phases {
		for _, d := range ph {
			if d.Exp < 0 || d.Exp >= len(c.Exporters) {
				return v, "", fmt.Errorf("bad case: exporter index")
			}
		}
		req.Phases = append(req.Phases, toDrvPhase(c, ph))
	}
	// the mirror function of a request outlives it (it never returns while its socket works) and reads the global
	// options, which the next request sets again: that is the driver's doing, not the collector's, so requests
	// with mirroring use the plain build (as C16 does)
	race := c.Race && !c.Mirror && driverPath(true) != ""
	if c.Mirror {
		// the mirror function of a request never returns and goes on reading the global options: a process that has
		// served a mirroring request is not reused (a later request's buffer size would reach the old goroutine)
		drivers.drop(race)
		defer drivers.drop(race)
	}
	d, e := drivers.get(race, 400)
	if e != nil {
		return v, "", e
	}
	resp, died, diag := d.call(&req)
	if died {
		hung := d.hung
		drivers.drop(race)
		if hung {
			return v, "stall", fmt.Errorf("the workers of a phase never finished (workers=%d, mirroring=%v): a worker is blocked for good with a received datagram in hand; driver output: %s", c.Workers, c.Mirror, tail(diag, 600))
		}
		return v, "crash", fmt.Errorf("the worker pipeline terminated the process (workers=%d, race build=%v): %s", c.Workers, race, diag)
	}
	if resp.Error != "" {
		return v, "", fmt.Errorf("harness: driver error: %s", resp.Error)
	}
	if len(resp.Phases) != len(c.Phases) {
		return v, "", fmt.Errorf("harness: driver answered %d phases for %d", len(resp.Phases), len(c.Phases))
	}
	// sequential reference
	replicas := map[string]*flowCache{}
	replicaOf := func(p string) *flowCache {
		if p != "ipfix" && p != "nf9" {
			return nil
		}
		if replicas[p] == nil {
			replicas[p] = newFlowCache(p)
		}
		return replicas[p]
	}
	sizeOf := func(p string) int {
		if p == c.Proto || c.OtherUDPSize <= 0 {
			return c.UDPSize
		}
		return c.OtherUDPSize
	}
	clip := func(s string) string {
		if len(s) > 300 {
			return s[:300] + "..."
		}
		return s
	}
	subset := map[int]bool{}
	for _, pi := range c.Subset {
		if pi < 0 || pi >= len(c.Phases) || len(c.Phases[pi]) < 1000 {
			return v, "", fmt.Errorf("bad case: subset phase")
		}
		subset[pi] = true
		v.label(true, "message-queue-overflow-phase")
	}
	unjudged := map[int]bool{}
	for _, pi := range c.Unjudged {
		if pi < 0 || pi >= len(c.Phases) {
			return v, "", fmt.Errorf("bad case: unjudged phase")
		}
		unjudged[pi] = true
	}
	// compare the multiset a pipeline published with what its datagrams decode to on their own
	compare := func(pi int, pname string, nsent int, published []string, want map[string]int) (string, error) {
		got := map[string]int{}
		for _, h := range published {
			b, _ := hex.DecodeString(h)
			if prop == "C05" && !json.Valid(b) {
				return "invalid-json", fmt.Errorf("phase %d, %s pipeline: a published payload is not a valid JSON document: %s", pi, pname, clip(string(b)))
			}
			got[normPayload(pname, b)]++
		}
		var extra, missing, dup []string
		for p, n := range got {
			w := want[p]
			if w == 0 {
				extra = append(extra, p)
			} else if n > w {
				dup = append(dup, p)
			}
		}
		for p, w := range want {
			if got[p] < w {
				missing = append(missing, p)
			}
		}
		sort.Strings(extra)
		sort.Strings(missing)
		sort.Strings(dup)
		what := pname + " pipeline"
		if pname != c.Proto {
			what = pname + " pipeline (cross traffic next to the " + c.Proto + " pipeline)"
		}
		switch {
		case len(extra) > 0 && len(missing) > 0:
			return "payload-mismatch", fmt.Errorf("phase %d, %s (%d datagrams, %d workers, receive buffers %d/%d octets): %d published payloads differ from what their datagrams decode to on their own; e.g. published %s ; expected (missing) %s",
				pi, what, nsent, c.Workers, c.UDPSize, sizeOf("-"), len(extra), clip(extra[0]), clip(missing[0]))
		case len(extra) > 0:
			return "extra", fmt.Errorf("phase %d, %s: %d published payloads correspond to no datagram sent, e.g. %s", pi, what, len(extra), clip(extra[0]))
		case len(dup) > 0:
			return "duplicate", fmt.Errorf("phase %d, %s: %d payloads published more than once, e.g. %s", pi, what, len(dup), clip(dup[0]))
		case len(missing) > 0 && !(subset[pi] && nsent >= 1000):
			// (a queue of 1000 slots can only overflow in a pipeline that was sent 1000 datagrams or more in the phase)
			return "missing", fmt.Errorf("phase %d, %s (%d datagrams, %d workers): %d datagrams that yield records were not published, e.g. %s", pi, what, nsent, c.Workers, len(missing), clip(missing[0]))
		}
		return "", nil
	}
	sizeMix, classMix := false, false
	for pi, ph := range c.Phases {
		want := map[string]map[string]int{c.Proto: {}}
		sent := map[string]int{}
		lo, hi := uint64(0), uint64(0)
		minLen, maxLen := 1<<30, 0
		classes := map[string]bool{}
		for _, dg := range ph {
			pname := dg.Proto
			if pname == "" {
				pname = c.Proto
			}
			if want[pname] == nil {
				want[pname] = map[string]int{}
			}
			sent[pname]++
			data := []byte(dg.Data)
			if len(data) > sizeOf(pname) {
				data = data[:sizeOf(pname)] // the receive buffer holds that many octets
				v.label(true, "oversize-datagram")
				v.label(pname != c.Proto, "oversize-cross-datagram")
			}
			o, perr := sequentialDecode(pname, replicaOf(pname), c.Exporters[dg.Exp], data, c.Filter)
			if perr != nil {
				return v, "seq-panic", fmt.Errorf("phase %d: sequential decode: %v", pi, perr)
			}
			if o.published {
				want[pname][o.payload]++
			}
			classes[dg.Class] = true
			v.label(true, "class-"+dg.Class)
			if pname != c.Proto {
				v.label(true, "cross-"+pname)
				continue
			}
			if c.Proto == "sflow" {
				if o.published {
					lo++
				}
				if o.clean {
					hi++
				}
			} else {
				if o.clean {
					lo++
				}
				if o.msg {
					hi++
				}
			}
			if len(data) < minLen {
				minLen = len(data)
			}
			if len(data) > maxLen {
				maxLen = len(data)
			}
		}
		if sent[c.Proto] > c.Workers && maxLen > 4*minLen+4 {
			sizeMix = true
		}
		if len(classes) >= 3 && c.Workers >= 2 {
			classMix = true
		}
		if unjudged[pi] {
			v.label(true, "redefinition-while-data-is-in-flight")
			continue
		}
		if sig, err := compare(pi, c.Proto, sent[c.Proto], resp.Phases[pi].Published, want[c.Proto]); err != nil {
			return v, sig, err
		}
		for pname, w := range want {
			if pname == c.Proto {
				continue
			}
			if sig, err := compare(pi, pname, sent[pname], resp.Phases[pi].Others[pname], w); err != nil {
				return v, "cross-" + sig, err
			}
		}
		if dd := resp.Phases[pi].DecodedDelta; dd < lo || dd > hi {
			return v, "decoded-count", fmt.Errorf("phase %d: DecodedCount moved by %d for %d datagrams; %d decode without error, %d return a message", pi, dd, sent[c.Proto], lo, hi)
		}
	}
	v.label(true, "proto-"+c.Proto)
	v.label(race, "race-driver")
	v.label(c.Workers >= 8, "workers>=8")
	v.label(c.Workers == 1, "workers=1")
	v.label(sizeMix, "size-mix")
	v.label(classMix, "class-mix")
	v.label(c.OtherUDPSize > 0 && c.OtherUDPSize != c.UDPSize, "independent-udp-sizes")
	v.label(c.Churn > 0, "worker-churn")
	v.label(c.LazyDrain, "slow-consumer")
	v.label(c.Verbose, "verbose-logging")
	v.label(c.ExactFit, "udp-size-fitted-to-a-datagram")
	v.label(c.Siblings, "sibling-exporters-flood")
	v.label(c.QuietSpells, "quiet-spells-with-idle-workers")
	if prop == "C13" {
		v.NT = classMix
	} else {
		v.NT = sizeMix
	}
	return v, "", nil
}

// summarisePipeline: evidence sample of a (large) pipeline case: shape plus the first datagrams of every phase.
func summarisePipeline(caseJSON []byte) []byte {
	var c plCase
	if json.Unmarshal(caseJSON, &c) != nil {
		return nil
	}
	type ph struct {
		Datagrams int            `json:"datagrams"`
		Classes   map[string]int `json:"classes"`
		MinLen    int            `json:"min_len"`
		MaxLen    int            `json:"max_len"`
		First     []plDatagram   `json:"first_datagrams"`
	}
	out := struct {
		Summary   string     `json:"summary"`
		Proto     string     `json:"proto"`
		Workers   int        `json:"workers"`
		UDPSize   int        `json:"udpsize"`
		Race      bool       `json:"race"`
		Exporters []wire.Hex `json:"exporters"`
		Phases    []ph       `json:"phases"`
	}{"pipeline case (datagrams beyond the first two of each phase omitted)", c.Proto, c.Workers, c.UDPSize, c.Race, c.Exporters, nil}
	for _, p := range c.Phases {
		x := ph{Datagrams: len(p), Classes: map[string]int{}, MinLen: 1 << 30}
		for i, d := range p {
			x.Classes[d.Class]++
			if len(d.Data) < x.MinLen {
				x.MinLen = len(d.Data)
			}
			if len(d.Data) > x.MaxLen {
				x.MaxLen = len(d.Data)
			}
			if i < 2 && len(d.Data) < 400 {
				x.First = append(x.First, d)
			}
		}
		out.Phases = append(out.Phases, x)
	}
	b, _ := json.Marshal(out)
	return b
}

func pipelineTest(t *testing.T, prop, rule string, maxPhaseLen int) {
	installEnterprise()
	col := getCollector(prop, rule)
	col.sampler = summarisePipeline
	defer drivers.stopAll()
	runRegress(t, prop)
	envs := map[string]*wire.GenEnv{"ipfix": wire.NewGenEnv("ipfix"), "nf9": wire.NewGenEnv("nf9")}
	envs["ipfix"].NoEnterprise = true // the driver process has the built-in information model only
	envs["ipfix"].Big, envs["nf9"].Big = true, true
	rapid.Check(t, func(t *rapid.T) {
		proto := rapid.SampledFrom(robustProtos).Draw(t, "proto")
		c := genPipeline(t, proto, envs, maxPhaseLen)
		cj := mustJSON(c)
		v, sig, err := runPipeline(prop, &c)
		// large cases are not kept as samples; hash is over the whole case
		col.report(t, cj, v, sig, err)
	})
}

func TestC12(t *testing.T) { pipelineTest(t, "C12", c12Rule, 800) }
func TestC13(t *testing.T) { pipelineTest(t, "C13", c13Rule, 300) }

func init() {
	for _, p := range []string{"C12", "C13"} {
		prop := p
		registerReplay(prop, func(raw json.RawMessage) error {
			installEnterprise()
			defer drivers.stopAll()
			var c plCase
			if err := json.Unmarshal(raw, &c); err != nil {
				return err
			}
			for i := 0; i < 5; i++ {
				if _, _, err := runPipeline(prop, &c); err != nil {
					return err
				}
			}
			return nil
		})
	}
}
