package props

// C15 — SIGTERM/SIGINT stops the collector cleanly and templates survive the restart.
// End-to-end: the real binary, real sockets, real signals, real cache files.

import (
	"bytes"
	"encoding/json"
	"fmt"
	"io"
	"net"
	"os"
	"path/filepath"
	"sort"
	"strconv"
	"strings"
	"sync"
	"syscall"
	"testing"
	"time"

	"pgregory.net/rapid"
	"verif/harness/wire"
)

type c15Key struct {
	Proto string        `json:"proto"` // ipfix | nf9
	Exp   int           `json:"exp"`   // index into Exporters
	Tpl   wire.Template `json:"tpl"`
	Recs  []wire.Record `json:"recs"`
	// HdrTime != 0: export time (IPFIX) / UNIX seconds (NetFlow v9) of this key's messages: the exporter's clock is its
	// own business (never set, a day behind, years ahead) and is no part of what a template means
	HdrTime uint32 `json:"hdr_time,omitempty"`
}

type c15Cycle struct {
	NewKeys  []c15Key `json:"new_keys"`
	Noise    int      `json:"noise"`    // sFlow / NetFlow v5 datagrams sent alongside
	Burst    int      `json:"burst"`    // data datagrams sent right before the signal
	Signal   string   `json:"signal"`   // TERM | INT
	DelayMS  int      `json:"delay_ms"` // pause between the burst and the signal
	Inflight bool     `json:"inflight"` // traffic (data and fresh template announcements) continues until the process is gone
	Fresh    []c15Key `json:"fresh"`    // templates first announced during the shutdown window
	// Redefine: templates acknowledged in an earlier cycle are re-announced with this (smaller) definition,
	// so that the cache written at this cycle's shutdown is shorter than the file it replaces
	Redefine []c15Key `json:"redefine,omitempty"`
	// LateMS: single datagrams sent this many milliseconds AFTER the signal, into the shutdown window, following
	// a quiet period (the receive loop may still be blocked in a read when the work queue is closed)
	LateMS []int `json:"late_ms,omitempty"`
	// CPUs > 0: this instance runs with its CPU affinity restricted to that many CPUs (0 = all)
	CPUs int `json:"cpus,omitempty"`
	// RepeatMS > 0: the same signal is sent a second time this many milliseconds after the first (a supervisor
	// signalling the group and the pid, an impatient operator): the shutdown in progress must complete all the same
	RepeatMS int `json:"repeat_ms,omitempty"`
	// BusyStart (cycles after the first): before this cycle's instance an instance is started while another process
	// holds one of its UDP ports; it is sent the cycle's signal 1.2 s later if it is still there (a collector may
	// fail at once or wait for the port). Whatever it does, it has learnt nothing, so it must not cost the templates
	// acknowledged in earlier cycles
	BusyStart bool `json:"busy_start,omitempty"`
	// Bulk > 0: before this cycle's own templates one further exporter (127.0.0.253, an address no key uses) announces this many templates of
	// 14 fields each (a busy collector: the cache file written at the end of the cycle is well above a megabyte);
	// whatever the population, the templates acknowledged in this and earlier cycles must survive the restart
	Bulk int `json:"bulk,omitempty"`
	// IdleProducerLife (cycles after the first): before this cycle's instance the collector lives once with
	// producer-enabled: false (a collector run for its stats or its mirror only): it receives data for the known
	// templates and sFlow / NetFlow v5 datagrams, is sent the cycle's signal and must stop as cleanly as any other —
	// and must not cost the templates acknowledged in earlier cycles
	IdleProducerLife bool `json:"idle_producer_life,omitempty"`
	// Saturate (with Inflight): the traffic that continues through the shutdown window is dense (data datagrams of
	// about 1300 octets, dozens of records each) and unpaced, so that the receive queue is full when the signal
	// arrives: a collector under more load than it can decode must stop as cleanly as an idle one
	Saturate bool `json:"saturate,omitempty"`
}

type c15Case struct {
	Exporters []int      `json:"exporters"` // 127.0.0.<n>; 0 = ::1
	Workers   int        `json:"workers"`
	Cycles    []c15Cycle `json:"cycles"`
	// Disabled: protocols switched off in the configuration (<protocol>-enabled: false) of every instance of the case;
	// at least one of ipfix / nf9 stays on
	Disabled []string `json:"disabled,omitempty"`
	// OtherFS: configuration, pid and cache files live on a file system other than the temporary directory's
	OtherFS bool `json:"other_fs,omitempty"`
	// Ambient: further valid settings the property does not depend on (verbose, dynamic-workers, cpu-cap)
	Ambient map[string]string `json:"ambient,omitempty"`
	// RelCache: cache-file settings are relative names; the working directory differs from the configuration's
	RelCache bool `json:"rel_cache,omitempty"`
	// BindV4: the four listeners are bound to 127.0.0.1 (Ambient holds the *-addr settings) instead of all addresses:
	// the collector then sees its IPv4 exporters under 4-octet addresses, not the 16-octet form a dual-stack
	// listener reports (cases without the ::1 exporter only)
	BindV4 bool `json:"bind_v4,omitempty"`
}

const c15Rule = "case = 1..3 stop/start cycles of the real collector binary (each instance with all CPUs or its affinity restricted to 1, 2, 4 or 8; 2..8 workers per protocol; in about 3 of 4 cases a generated subset of the four protocols is switched off by configuration, at least one of IPFIX / NetFlow v9 stays on; rawSocket sink and restful stats owned by the harness, per-instance pid and cache files (in a quarter of the cases given as relative names with a working directory other than the configuration's), in a quarter of the cases on a file system other than the temporary directory's) with 1..8 exporters on 127.0.0.x and ::1 (in a quarter of the cases without ::1 the listeners are bound to 127.0.0.1, so that the collector sees 4-octet exporter addresses): " +
	"per cycle new IPFIX / NetFlow v9 templates are announced (each key's messages carry a drawn export time: the usual one, 1000 s or a day after 1970, years back, about now, a week ahead, the year 2096; or all known ones redefined with a shorter definition, so that the next cache file is shorter than the one it replaces; or, in a quarter of the later cycles, a quiet life: nothing new, one known template re-announced with a single specifier changed — a scope field if it has any) and acknowledged (a data message using them reached the sink), sFlow/NetFlow v5 noise, in 1 cycle of 4 a further exporter announcing 1500, 3000, 6000 or 12 000 templates first (a cache file of megabytes; some 240 of them, spread over the population, are seen to work before the signal and must work after every later restart without being resent), a data burst, then SIGTERM or SIGINT after a drawn delay (in 5 of 8 cycles sent once, otherwise repeated 1..1100 ms later), " +
	"optionally with traffic (data and announcements of fresh template ids; in a quarter of those cycles dense and unpaced, so that the receive queue is full at the signal) continuing through the shutdown window, or with single late datagrams 0.9..2.1 s after the signal following a quiet period; in a fifth of the later cycles the collector first lives once with producer-enabled: false (data, sFlow and NetFlow v5 datagrams, the cycle's signal: exit 0 within 6 s); in a quarter of the later cycles an instance is first started while one of its UDP ports is held by another process (and signalled 1.2 s later if still there); a final verification restart follows the last cycle; " +
	"oracle per cycle = exit status 0 within 6 s of the signal, stderr free of panic / fatal error / concurrent map, both cache files exist, load and decode data for every acknowledged (exporter,id) to the reference decode, " +
	"and after the restart data sent WITHOUT templates for every acknowledged (exporter,id) is published with the reference payload; " +
	"non-trivial = a cycle with >= 1 acknowledged template and traffic in flight at the signal; distinct by hash"

func genC15(t *rapid.T) c15Case {
	envs := map[string]*wire.GenEnv{"ipfix": wire.NewGenEnv("ipfix"), "nf9": wire.NewGenEnv("nf9")}
	envs["ipfix"].NoEnterprise = true
	var c c15Case
	ne := rapid.IntRange(1, 8).Draw(t, "nexp")
	used := map[int]bool{}
	for len(c.Exporters) < ne {
		n := rapid.OneOf(rapid.Just(0), rapid.IntRange(2, 250)).Draw(t, "expaddr")
		if !used[n] {
			used[n] = true
			c.Exporters = append(c.Exporters, n)
		}
	}
	c.Workers = rapid.IntRange(2, 8).Draw(t, "workers")
	c.OtherFS = rapid.IntRange(0, 3).Draw(t, "otherfs") == 0
	c.Ambient = genAmbient(t)
	hasV6 := false
	for _, n := range c.Exporters {
		hasV6 = hasV6 || n == 0
	}
	if !hasV6 && rapid.IntRange(0, 3).Draw(t, "bindv4") == 0 {
		if c.Ambient == nil {
			c.Ambient = map[string]string{}
		}
		for _, key := range []string{"ipfix-addr", "netflow9-addr", "netflow5-addr", "sflow-addr"} {
			c.Ambient[key] = `"127.0.0.1"`
		}
		c.BindV4 = true
	}
	c.RelCache = rapid.IntRange(0, 2).Draw(t, "relcache") == 0
	// which protocols run is a valid configuration choice: a collector for one or two protocols must stop as cleanly
	c.Disabled = rapid.SampledFrom([][]string{nil, nil, nil, {"ipfix"}, {"nf9"}, {"ipfix", "nf5"}, {"nf9", "sflow"}, {"sflow", "nf5"}, {"ipfix", "sflow", "nf5"}, {"nf9", "sflow", "nf5"}, {"nf5"}}).Draw(t, "disabled")
	tplProtos := []string{}
	for _, p := range []string{"ipfix", "nf9"} {
		off := false
		for _, d := range c.Disabled {
			off = off || d == p
		}
		if !off {
			tplProtos = append(tplProtos, p)
		}
	}
	usedID := map[string]bool{}
	genKey := func() c15Key {
		proto := rapid.SampledFrom(tplProtos).Draw(t, "kproto")
		exp := rapid.IntRange(0, ne-1).Draw(t, "kexp")
		id := wire.GenTemplateID(t)
		for usedID[fmt.Sprint(proto, exp, id)] {
			id++
			if id < 256 {
				id = 256
			}
		}
		usedID[fmt.Sprint(proto, exp, id)] = true
		tp := envs[proto].GenTemplate(t, id)
		ds := envs[proto].GenDataSet(t, &tp, 3)
		return c15Key{Proto: proto, Exp: exp, Tpl: tp, Recs: ds.Recs,
			HdrTime: rapid.SampledFrom([]uint32{0, 0, 0, 0, 1000, 86400, 1500000000, 1790000000, 1790600000, 4000000000}).Draw(t, "hdrtime")}
	}
	nc := rapid.IntRange(1, 3).Draw(t, "ncycles")
	for i := 0; i < nc; i++ {
		var cy c15Cycle
		nk := rapid.IntRange(0, 6).Draw(t, "nkeys")
		if i == 0 && nk == 0 {
			nk = 1
		}
		if i > 0 && rapid.IntRange(0, 2).Draw(t, "shrink") == 0 {
			// every template known so far is redefined with one short field and nothing new is announced
			nk = 0
			for _, prev := range c.Cycles {
				for _, k := range prev.NewKeys {
					small := wire.Template{ID: k.Tpl.ID, Fields: []wire.Field{{ID: 4, Len: 1, Type: wire.TUint8}}}
					cy.Redefine = append(cy.Redefine, c15Key{Proto: k.Proto, Exp: k.Exp, Tpl: small, Recs: []wire.Record{{Vals: []wire.Hex{{byte(6 + i)}}}}})
				}
			}
		}
		retouch := false
		if i > 0 && len(cy.Redefine) == 0 && rapid.IntRange(0, 3).Draw(t, "retouch") == 0 {
			// a quiet life: nothing new is announced, one known template is re-announced with a single specifier changed
			// (a scope field if it has any); what is saved at the end of such a life differs from what was loaded in
			// that one specifier only
			var known []c15Key
			for _, prev := range c.Cycles {
				known = append(known, prev.NewKeys...)
			}
			if len(known) > 0 {
				ki := rapid.IntRange(0, len(known)-1).Draw(t, "retouchkey")
				for j := 0; j < len(known); j++ {
					if len(known[(ki+j)%len(known)].Tpl.Scope) > 0 {
						ki = (ki + j) % len(known)
						break
					}
				}
				k := known[ki]
				if ntp, ok := wire.RetouchTemplate(&k.Tpl, true, rapid.IntRange(0, 1023).Draw(t, "retoucha")); ok {
					cy.Redefine = []c15Key{{Proto: k.Proto, Exp: k.Exp, Tpl: ntp, Recs: k.Recs}}
					nk, retouch = 0, true
				}
			}
		}
		for k := 0; k < nk; k++ {
			cy.NewKeys = append(cy.NewKeys, genKey())
		}
		cy.Noise = rapid.IntRange(0, 20).Draw(t, "noise")
		cy.CPUs = rapid.SampledFrom([]int{0, 0, 0, 0, 1, 2, 4, 8}).Draw(t, "cpus")
		cy.RepeatMS = rapid.SampledFrom([]int{0, 0, 0, 1, 50, 300, 900, 1100}).Draw(t, "repeatms")
		cy.BusyStart = i > 0 && rapid.IntRange(0, 3).Draw(t, "busystart") == 0
		cy.IdleProducerLife = i > 0 && rapid.IntRange(0, 4).Draw(t, "idleproducer") == 0
		cy.Bulk = rapid.SampledFrom([]int{0, 0, 0, 0, 0, 0, 0, 0, 0, 0, 0, 0, 1500, 3000, 6000, 12000}).Draw(t, "bulk")
		cy.Burst = rapid.SampledFrom([]int{0, 5, 50, 300}).Draw(t, "burst")
		cy.Signal = rapid.SampledFrom([]string{"TERM", "TERM", "INT"}).Draw(t, "signal")
		cy.DelayMS = rapid.SampledFrom([]int{0, 0, 1, 10, 100}).Draw(t, "delay")
		cy.Inflight = rapid.IntRange(0, 2).Draw(t, "inflight") > 0 && !retouch
		if cy.Inflight {
			cy.Saturate = rapid.IntRange(0, 3).Draw(t, "saturate") == 0
			nf := rapid.IntRange(0, 12).Draw(t, "nfresh")
			for k := 0; k < nf; k++ {
				cy.Fresh = append(cy.Fresh, genKey())
			}
		}
		if !cy.Inflight && rapid.Bool().Draw(t, "late") {
			n := rapid.IntRange(1, 6).Draw(t, "nlate")
			for k := 0; k < n; k++ {
				cy.LateMS = append(cy.LateMS, rapid.SampledFrom([]int{900, 990, 1005, 1020, 1050, 1100, 1200, 1300, 1500, 1700, 1900, 2100}).Draw(t, "latems"))
			}
		}
		c.Cycles = append(c.Cycles, cy)
	}
	return c
}

type c15Rig struct {
	c       *c15Case
	dir     string
	sink    *lineSink
	exps    []*exporterSock
	replica map[string]*flowCache
	seq     uint32
}

func (r *c15Rig) announceMsg(k *c15Key) []byte {
	r.seq++
	kind := "tpl"
	if k.Tpl.Options {
		kind = "opt"
	}
	m := wire.Msg{Proto: k.Proto, Seq: r.seq, Time: 1700000000, Domain: uint32(k.Exp), Count: 1, Sets: []wire.Set{{Kind: kind, Tpls: []wire.Template{k.Tpl}}}}
	if k.HdrTime != 0 {
		m.Time = k.HdrTime
	}
	return m.Bytes()
}

func (r *c15Rig) dataMsg(k *c15Key) []byte {
	r.seq++
	tp := k.Tpl
	m := wire.Msg{Proto: k.Proto, Seq: r.seq, Time: 1700000001, Domain: uint32(k.Exp), Count: uint16(len(k.Recs)), Sets: []wire.Set{{Kind: "data", Tpl: &tp, Recs: k.Recs}}}
	if k.HdrTime != 0 {
		m.Time = k.HdrTime + 1
	}
	return m.Bytes()
}

// expected returns the payload the collector must publish for a data datagram (sequential reference decode).
func (r *c15Rig) expected(k *c15Key, data []byte) (string, error) {
	o, err := sequentialDecode(k.Proto, r.replica[k.Proto], r.exps[k.Exp].addr, data, nil)
	if err != nil {
		return "", err
	}
	if !o.published {
		return "", fmt.Errorf("harness: reference decode yields no records")
	}
	return o.payload, nil
}

func stderrProblem(s string) string {
	for _, bad := range []string{"panic:", "fatal error:", "concurrent map", "send on closed channel", "SIGSEGV"} {
		if i := strings.Index(s, bad); i >= 0 {
			e := i + 1500
			if e > len(s) {
				e = len(s)
			}
			return s[i:e]
		}
	}
	return ""
}

func runC15(c *c15Case) (v verdict, sig string, err error) {
	if len(c.Exporters) == 0 || len(c.Cycles) == 0 {
		return v, "", fmt.Errorf("bad case")
	}
	work := os.Getenv("VERIF_WORK")
	if work == "" {
		work = os.TempDir()
	}
	dir, e := os.MkdirTemp(work, "c15-")
	if e != nil {
		return v, "", fmt.Errorf("harness: %v", e)
	}
	defer os.RemoveAll(dir)
	if c.OtherFS {
		if d := otherFSDir("verif-c15-"); d != "" {
			defer os.RemoveAll(d)
			dir = d
			v.label(true, "cache-files-on-another-file-system")
		}
	}
	sink, e := newLineSink()
	if e != nil {
		return v, "", fmt.Errorf("harness: %v", e)
	}
	defer sink.close()
	r := &c15Rig{c: c, dir: dir, sink: sink, replica: map[string]*flowCache{"ipfix": newFlowCache("ipfix"), "nf9": newFlowCache("nf9")}, seq: 5000}
	for _, n := range c.Exporters {
		ex, e := openExporter(n)
		if e != nil {
			return v, "", fmt.Errorf("harness: cannot bind exporter 127.0.0.%d: %v", n, e)
		}
		defer ex.conn.Close()
		r.exps = append(r.exps, ex)
	}
	var acked []*c15Key
	// templates of the bulk population that were seen to work before a signal: they must survive restarts like any other
	type bulkKey struct {
		proto string
		tpl   wire.Template
	}
	var bulkAcked []bulkKey
	bulkData := func(b *bulkKey, seq uint32) []byte {
		tp := b.tpl
		rec := wire.Record{}
		for f := range tp.Fields {
			rec.Vals = append(rec.Vals, wire.Hex{byte(tp.ID >> 8), byte(tp.ID), byte(f), byte(seq)})
		}
		m := wire.Msg{Proto: b.proto, Seq: seq, Time: 1700000002, Domain: 99, Count: 1, Sets: []wire.Set{{Kind: "data", Tpl: &tp, Recs: []wire.Record{rec}}}}
		return m.Bytes()
	}
	inflightAtSignal := false
	disabled := map[string]bool{}
	for _, d := range c.Disabled {
		disabled[d] = true
	}
	if disabled["ipfix"] && disabled["nf9"] {
		return v, "", fmt.Errorf("bad case: both template protocols disabled")
	}
	for _, cy := range c.Cycles {
		for _, ks := range [][]c15Key{cy.NewKeys, cy.Fresh, cy.Redefine} {
			for _, k := range ks {
				if disabled[k.Proto] {
					return v, "", fmt.Errorf("bad case: template for a disabled protocol")
				}
			}
		}
	}
	v.label(len(disabled) > 0, "some-protocols-disabled")
	v.label(c.RelCache, "relative-cache-file-names")
	v.label(disabled["ipfix"] && !disabled["nf9"], "nf9-without-ipfix")
	v.label(disabled["nf9"] && !disabled["ipfix"], "ipfix-without-nf9")

	// cycles, then one verification restart
	for ci := 0; ci <= len(c.Cycles); ci++ {
		verification := ci == len(c.Cycles)
		ports, e := pickPorts()
		if e != nil {
			return v, "", e
		}
		cpus := 0
		if !verification {
			cpus = c.Cycles[ci].CPUs
			if c.Cycles[ci].Saturate {
				cpus = 1 // one processor is easy to saturate without starving the rest of the machine
			}
			v.label(cpus > 0, "restricted-cpu-set")
		}
		if !verification && c.Cycles[ci].BusyStart && len(acked) > 0 {
			// an instance that cannot bind one of its ports (held by the harness), signalled while it is still around
			busyProto := acked[0].Proto
			port := map[string]int{"ipfix": ports.IPFIX, "nf9": ports.NF9}[busyProto]
			if hold, herr := net.ListenPacket("udp", fmt.Sprintf(":%d", port)); herr == nil {
				bp, berr := startVflow(dir, ports, e2eConfig{Workers: c.Workers, SinkAddr: sink.addr(), Disabled: disabled, Extra: c.Ambient, RelCache: c.RelCache, NoWait: true}, false)
				if berr == nil && bp != nil {
					if !bp.waitExit(1200 * time.Millisecond) {
						sigNo := syscall.SIGTERM
						if c.Cycles[ci].Signal == "INT" {
							sigNo = syscall.SIGINT
						}
						bp.signal(sigNo)
						if !bp.waitExit(8 * time.Second) {
							bp.kill()
						}
					}
					if bad := stderrProblem(bp.stderrText()); bad != "" {
						hold.Close()
						return v, "crash", fmt.Errorf("cycle %d: an instance started while its %s port was taken crashed: %s", ci, busyProto, bad)
					}
					v.label(true, "start-with-a-port-taken")
				}
				hold.Close()
			}
		}
		if !verification && c.Cycles[ci].IdleProducerLife && len(acked) > 0 {
			extra := map[string]string{"producer-enabled": "false"}
			for k, val := range c.Ambient {
				extra[k] = val
			}
			lp, lerr := startVflow(dir, ports, e2eConfig{Workers: c.Workers, SinkAddr: sink.addr(), Disabled: disabled, Extra: extra, RelCache: c.RelCache}, false)
			if lerr != nil {
				if lp != nil && stderrProblem(lp.stderrText()) != "" {
					return v, "start-crash", fmt.Errorf("cycle %d: a collector started with producer-enabled: false crashed at start-up: %s", ci, lp.stderrTail())
				}
				return v, "", fmt.Errorf("harness: cycle %d (producer-enabled: false): %v", ci, lerr)
			}
			for i := 0; i < 12; i++ {
				k := acked[i%len(acked)]
				r.exps[k.Exp].send(lp.port(k.Proto), r.dataMsg(k))
				ex := r.exps[i%len(r.exps)]
				if !disabled["nf5"] {
					pk := wire.NF5Packet{Version: 5, Count: 1, Seq: uint32(i), Recs: []wire.Hex{make([]byte, 48)}}
					ex.send(lp.port("nf5"), pk.Bytes())
				}
				if !disabled["sflow"] {
					d := wire.SFDatagram{Agent: []byte{10, 0, 0, byte(i)}, Seq: uint32(i), Samples: []wire.SFSample{{Kind: "counter", Counter: &wire.SFCounter{Seq: 1, Recs: []wire.SFCounterRec{{Kind: "proc", Vals: []uint64{1, 2, 3, 4, 5}}}}}}}
					ex.send(lp.port("sflow"), d.Bytes())
				}
			}
			time.Sleep(150 * time.Millisecond)
			sigNo := syscall.SIGTERM
			if c.Cycles[ci].Signal == "INT" {
				sigNo = syscall.SIGINT
			}
			lp.signal(sigNo)
			if !lp.waitExitFair(6 * time.Second) {
				lp.kill()
				return v, "no-exit", fmt.Errorf("cycle %d: a collector running with producer-enabled: false (data, sFlow and NetFlow v5 datagrams received) is still running 6 s after SIG%s; log tail: %s", ci, c.Cycles[ci].Signal, tail(lp.stderrText(), 600))
			}
			if bad := stderrProblem(lp.stderrText()); bad != "" {
				return v, "crash", fmt.Errorf("cycle %d: a collector running with producer-enabled: false crashed: %s", ci, bad)
			}
			if lp.status != nil {
				return v, "exit-status", fmt.Errorf("cycle %d: a collector running with producer-enabled: false: exit status after SIG%s: %v; log tail: %s", ci, c.Cycles[ci].Signal, lp.status, tail(lp.stderrText(), 600))
			}
			v.label(true, "a-life-with-the-producer-switched-off")
		}
		proc, e := startVflow(dir, ports, e2eConfig{Workers: c.Workers, SinkAddr: sink.addr(), Disabled: disabled, Extra: c.Ambient, RelCache: c.RelCache, CPUs: cpus}, false)
		if e != nil {
			if proc != nil && stderrProblem(proc.stderrText()) != "" {
				return v, "start-crash", fmt.Errorf("cycle %d: collector crashed at start-up (cache files of the previous cycle): %s", ci, proc.stderrTail())
			}
			return v, "", fmt.Errorf("harness: cycle %d: %v", ci, e)
		}
		fail := func(sig string, format string, a ...interface{}) (verdict, string, error) {
			if !proc.exited() {
				proc.kill()
			}
			return v, sig, fmt.Errorf("cycle %d: %s", ci, fmt.Sprintf(format, a...))
		}
		// templates acknowledged in earlier cycles must decode immediately, without being resent
		for _, k := range acked {
			data := r.dataMsg(k)
			want, e := r.expected(k, data)
			if e != nil {
				return fail("", "%v", e)
			}
			if e := r.exps[k.Exp].send(proc.port(k.Proto), data); e != nil {
				return fail("", "harness: send: %v", e)
			}
			if !sink.waitFor(want, 5*time.Second) {
				return fail("template-lost", "after the restart, data for %s template %d of exporter %v (acknowledged before the signal) was not published within 5 s without resending the template; collector log tail: %s",
					k.Proto, k.Tpl.ID, r.exps[k.Exp].addr, tail(proc.stderrText(), 600))
			}
			v.label(true, "restart-decode-checked")
			v.label(c.BindV4, "listeners-bound-to-an-ipv4-address")
		}
		if len(bulkAcked) > 0 {
			bex, e := openExporter(253)
			if e != nil {
				return fail("", "harness: cannot bind the bulk exporter: %v", e)
			}
			for i := range bulkAcked {
				b := &bulkAcked[i]
				r.seq++
				data := bulkData(b, r.seq)
				o, e := sequentialDecode(b.proto, r.replica[b.proto], bex.addr, data, nil)
				if e != nil || !o.published {
					bex.conn.Close()
					return fail("", "harness: bulk reference decode: %v", e)
				}
				bex.send(proc.port(b.proto), data)
				if !sink.waitFor(o.payload, 5*time.Second) {
					bex.conn.Close()
					return fail("template-lost", "after the restart, data for %s template %d of the bulk exporter %v (one of %d templates of a large population that were seen to work before the signal) was not published within 5 s without resending the template; collector log tail: %s",
						b.proto, b.tpl.ID, bex.addr, len(bulkAcked), tail(proc.stderrText(), 600))
				}
			}
			bex.conn.Close()
			v.label(true, "bulk-population-checked-after-the-restart")
		}
		if verification {
			proc.signal(syscall.SIGTERM)
			if !proc.waitExitFair(6 * time.Second) {
				return fail("no-exit", "collector did not exit within 6 s of SIGTERM (verification restart)")
			}
			if proc.status != nil {
				return fail("exit-status", "collector exit status: %v; %s", proc.status, proc.stderrTail())
			}
			break
		}
		cy := c.Cycles[ci]
		if cy.Bulk > 0 {
			if cy.Bulk > 20000 {
				return fail("", "bad case: bulk")
			}
			bproto := "ipfix"
			if disabled["ipfix"] {
				bproto = "nf9"
			}
			bex, e := openExporter(253)
			if e != nil {
				return fail("", "harness: cannot bind the bulk exporter: %v", e)
			}
			elems := []uint16{8, 12, 15, 10, 14, 16, 17, 21, 22, 1, 2, 7, 11, 4}
			var bulkTpls []wire.Template
			for id := 0; id < cy.Bulk; {
				m := wire.Msg{Proto: bproto, Seq: uint32(600000 + id), Time: 1700000000, Domain: 99, Sets: []wire.Set{{Kind: "tpl"}}}
				for k := 0; k < 10 && id < cy.Bulk; k, id = k+1, id+1 {
					tp := wire.Template{ID: uint16(1000 + id)}
					for f := range elems {
						// every template a little different (the order of its fields rotates with the id)
						tp.Fields = append(tp.Fields, wire.Field{ID: elems[(f+id)%len(elems)], Len: 4, Type: wire.TUint32})
					}
					m.Sets[0].Tpls = append(m.Sets[0].Tpls, tp)
				}
				m.Count = uint16(len(m.Sets[0].Tpls))
				bex.send(proc.port(bproto), m.Bytes())
				if _, perr := r.replica[bproto].decodeFlow(bex.addr, m.Bytes()); perr != nil {
					return fail("", "harness: %v", perr)
				}
				bulkTpls = append(bulkTpls, m.Sets[0].Tpls...)
				if id%100 == 0 {
					time.Sleep(time.Millisecond)
				}
			}
			// a sample of the population is seen to work now (UDP may have lost an announcement: those are not counted)
			// and must still work after every later restart
			bulkAcked = nil
			step := len(bulkTpls)/240 + 1
			for i := 0; i < len(bulkTpls); i += step {
				b := bulkKey{proto: bproto, tpl: bulkTpls[i]}
				r.seq++
				data := bulkData(&b, r.seq)
				o, e := sequentialDecode(bproto, r.replica[bproto], bex.addr, data, nil)
				if e != nil || !o.published {
					return fail("", "harness: bulk reference decode: %v", e)
				}
				bex.send(proc.port(bproto), data)
				if sink.waitFor(o.payload, 300*time.Millisecond) {
					bulkAcked = append(bulkAcked, b)
				}
			}
			bex.conn.Close()
			v.label(true, "bulk-template-population")
			v.label(cy.Bulk > 4096, "bulk-population>4096-templates")
		}
		// new templates (and redefinitions of known ones): announce, then data until published (= acknowledged)
		toAnnounce := make([]*c15Key, 0, len(cy.NewKeys)+len(cy.Redefine))
		for ki := range cy.NewKeys {
			toAnnounce = append(toAnnounce, &cy.NewKeys[ki])
		}
		for ki := range cy.Redefine {
			toAnnounce = append(toAnnounce, &cy.Redefine[ki])
		}
		v.label(len(cy.Redefine) > 0 && len(cy.Redefine[0].Tpl.Scope) == 0 && len(cy.Redefine[0].Tpl.Fields) == 1 && cy.Redefine[0].Tpl.Fields[0].ID == 4, "templates-redefined-smaller")
		v.label(len(cy.Redefine) == 1 && len(cy.NewKeys) == 0 && !cy.Inflight, "quiet-life-with-one-specifier-changed")
		for _, k := range toAnnounce {
			ann := r.announceMsg(k)
			if _, perr := r.replica[k.Proto].decodeFlow(r.exps[k.Exp].addr, ann); perr != nil {
				return fail("", "harness: %v", perr)
			}
			ok := false
			for try := 0; try < 20 && !ok; try++ {
				// UDP may lose a datagram: the announcement is repeated with every attempt
				r.exps[k.Exp].send(proc.port(k.Proto), ann)
				time.Sleep(time.Duration(5+10*try) * time.Millisecond)
				data := r.dataMsg(k)
				want, e := r.expected(k, data)
				if e != nil {
					return fail("", "%v", e)
				}
				r.exps[k.Exp].send(proc.port(k.Proto), data)
				ok = sink.waitFor(want, 400*time.Millisecond)
			}
			if !ok {
				return fail("not-published", "data for the freshly announced %s template %d was never published (20 attempts); log tail: %s", k.Proto, k.Tpl.ID, tail(proc.stderrText(), 600))
			}
			replaced := false
			for ai, a := range acked {
				if a.Proto == k.Proto && a.Exp == k.Exp && a.Tpl.ID == k.Tpl.ID {
					acked[ai], replaced = k, true
				}
			}
			if !replaced {
				acked = append(acked, k)
			}
		}
		// noise on the other two protocols
		for i := 0; i < cy.Noise; i++ {
			ex := r.exps[i%len(r.exps)]
			if i%2 == 0 {
				p := wire.NF5Packet{Version: 5, Count: 1, Seq: uint32(i), Recs: []wire.Hex{make([]byte, 48)}}
				ex.send(proc.port("nf5"), p.Bytes())
			} else {
				d := wire.SFDatagram{Agent: []byte{10, 0, 0, byte(i)}, Seq: uint32(i), Samples: []wire.SFSample{{Kind: "counter", Counter: &wire.SFCounter{Seq: 1, Recs: []wire.SFCounterRec{{Kind: "proc", Vals: []uint64{1, 2, 3, 4, 5}}}}}}}
				ex.send(proc.port("sflow"), d.Bytes())
			}
		}
		// burst + in-flight traffic
		for i := 0; i < cy.Burst && len(acked) > 0; i++ {
			k := acked[i%len(acked)]
			r.exps[k.Exp].send(proc.port(k.Proto), r.dataMsg(k))
		}
		stopTraffic := make(chan struct{})
		var twg sync.WaitGroup
		if cy.Inflight {
			twg.Add(1)
			// dense variants of the acknowledged keys (records repeated up to about 1300 octets)
			var dense []*c15Key
			if cy.Saturate {
				for _, k := range acked {
					one := len(r.dataMsgNoSeq(k, 0))
					if one < 20 || one > 1300 || len(k.Recs) == 0 {
						continue
					}
					kk := *k
					for n := 1300 / (one - 16); n > 1; n-- {
						kk.Recs = append(kk.Recs, k.Recs...)
					}
					dense = append(dense, &kk)
				}
				v.label(len(dense) > 0, "saturating-traffic-through-shutdown")
			}
			go func() {
				defer twg.Done()
				i := 0
				for {
					select {
					case <-stopTraffic:
						return
					default:
					}
					if len(dense) > 0 {
						k := dense[i%len(dense)]
						r.exps[k.Exp].send(proc.port(k.Proto), r.dataMsgNoSeq(k, i))
						i++
						if i%80 == 0 {
							time.Sleep(time.Millisecond) // up to 80 000 datagrams a second: more than one processor decodes
						}
						continue
					}
					if i < len(cy.Fresh) {
						k := &cy.Fresh[i]
						r.exps[k.Exp].send(proc.port(k.Proto), r.announceMsgNoSeq(k, i))
					}
					if len(acked) > 0 {
						k := acked[i%len(acked)]
						r.exps[k.Exp].send(proc.port(k.Proto), r.dataMsgNoSeq(k, i))
					}
					i++
					if i%50 == 0 {
						time.Sleep(time.Millisecond)
					}
				}
			}()
			time.Sleep(5 * time.Millisecond)
			if len(dense) > 0 {
				time.Sleep(400 * time.Millisecond) // let the receive queue fill
			}
		}
		if cy.DelayMS > 0 {
			time.Sleep(time.Duration(cy.DelayMS) * time.Millisecond)
		}
		sigNo := syscall.SIGTERM
		if cy.Signal == "INT" {
			sigNo = syscall.SIGINT
		}
		sent := time.Now()
		proc.signal(sigNo)
		if cy.RepeatMS > 0 {
			v.label(true, "signal-sent-twice")
			twg.Add(1)
			go func() {
				defer twg.Done()
				select {
				case <-stopTraffic:
				case <-time.After(time.Duration(cy.RepeatMS) * time.Millisecond):
					if !proc.exited() {
						proc.signal(sigNo)
					}
				}
			}()
		}
		if len(cy.LateMS) > 0 {
			v.label(true, "late-datagrams-after-signal")
			late := append([]int{}, cy.LateMS...)
			sort.Ints(late)
			twg.Add(1)
			go func() {
				defer twg.Done()
				for i, ms := range late {
					if d := time.Until(sent.Add(time.Duration(ms) * time.Millisecond)); d > 0 {
						select {
						case <-stopTraffic:
							return
						case <-time.After(d):
						}
					}
					for _, proto := range []string{"ipfix", "nf9", "nf5", "sflow"} {
						r.exps[i%len(r.exps)].send(proc.port(proto), []byte{0, 10, 0, 16, 0, 0, 0, 1, 0, 0, 0, byte(i), 0, 0, 0, 0})
					}
				}
			}()
		}
		exited := proc.waitExitFair(6 * time.Second)
		if exited && len(cy.LateMS) > 0 {
			// let the late senders finish their schedule only if the process is still there
		}
		close(stopTraffic)
		twg.Wait()
		if len(acked) > 0 && (cy.Inflight || cy.Burst >= 50) {
			inflightAtSignal = true
		}
		v.label(cy.Inflight, "traffic-through-shutdown")
		v.label(len(cy.Fresh) > 0, "fresh-templates-during-shutdown")
		v.label(cy.Signal == "INT", "sigint")
		if !exited {
			return fail("no-exit", "collector still running 6 s after SIG%s (traffic in flight: %v); log tail: %s", cy.Signal, cy.Inflight, tail(proc.stderrText(), 800))
		}
		_ = sent
		if bad := stderrProblem(proc.stderrText()); bad != "" {
			return fail("crash", "collector crashed during shutdown (SIG%s, traffic in flight: %v): %s", cy.Signal, cy.Inflight, bad)
		}
		if proc.status != nil {
			return fail("exit-status", "collector exit status after SIG%s: %v; log tail: %s", cy.Signal, proc.status, tail(proc.stderrText(), 800))
		}
		// cache files: complete, loadable, hold every acknowledged template
		for _, proto := range []string{"ipfix", "nf9"} {
			if disabled[proto] {
				continue
			}
			file := filepath.Join(dir, map[string]string{"ipfix": "ipfix.templates", "nf9": "netflow9.templates"}[proto])
			if c.RelCache {
				// a relative name: wherever the collector resolves it to (working directory or configuration directory),
				// the file it leaves must be complete; that the next start finds it is what the restart clause checks
				if alt := filepath.Join(dir, "run", filepath.Base(file)); fileExists(alt) {
					file = alt
				}
			}
			b, e := os.ReadFile(file)
			if e != nil {
				return fail("cache-file", "%s template cache file missing after shutdown: %v", proto, e)
			}
			// complete: the file is one JSON document, or a sequence of complete documents (how the collector lays the
			// cache out in the file is its own business), never a document that breaks off
			if !json.Valid(b) {
				dec := json.NewDecoder(bytes.NewReader(b))
				ndocs := 0
				for {
					var doc json.RawMessage
					if e := dec.Decode(&doc); e == io.EOF {
						break
					} else if e != nil {
						return fail("cache-file", "%s template cache file is not complete JSON (%d octets, breaks off in document %d: %v)", proto, len(b), ndocs+1, e)
					}
					ndocs++
				}
				if ndocs == 0 {
					return fail("cache-file", "%s template cache file holds no JSON document (%d octets)", proto, len(b))
				}
			}
			loaded, perr := safeLoad(proto, file)
			if perr != nil {
				return fail("cache-file", "%v", perr)
			}
			for _, k := range acked {
				if k.Proto != proto {
					continue
				}
				data := r.dataMsg(k)
				want, e := r.expected(k, data)
				if e != nil {
					return fail("", "%v", e)
				}
				seen := r.exps[k.Exp].addr
				if c.BindV4 && seen.To4() != nil {
					seen = seen.To4() // the form a listener bound to an IPv4 address reports
				}
				o, perr := sequentialDecode(proto, loaded, seen, data, nil)
				if perr != nil {
					return fail("cache-file", "%v", perr)
				}
				if !o.published || o.payload != want {
					return fail("cache-incomplete", "the %s cache file written at shutdown does not hold template %d of exporter %v, which had been acknowledged before the signal", proto, k.Tpl.ID, r.exps[k.Exp].addr)
				}
			}
		}
	}
	v.label(len(c.Cycles) > 1, "multi-cycle")
	v.label(len(acked) >= 4, ">=4-acknowledged-templates")
	v.NT = len(acked) > 0 && inflightAtSignal
	return v, "", nil
}

// in-flight traffic runs in its own goroutine: it must not touch the rig's sequence counter
func (r *c15Rig) announceMsgNoSeq(k *c15Key, i int) []byte {
	kind := "tpl"
	if k.Tpl.Options {
		kind = "opt"
	}
	m := wire.Msg{Proto: k.Proto, Seq: uint32(900000 + i), Time: 1700000002, Domain: uint32(k.Exp), Count: 1, Sets: []wire.Set{{Kind: kind, Tpls: []wire.Template{k.Tpl}}}}
	return m.Bytes()
}

func (r *c15Rig) dataMsgNoSeq(k *c15Key, i int) []byte {
	tp := k.Tpl
	m := wire.Msg{Proto: k.Proto, Seq: uint32(800000 + i), Time: 1700000003, Domain: uint32(k.Exp), Count: 1, Sets: []wire.Set{{Kind: "data", Tpl: &tp, Recs: k.Recs}}}
	return m.Bytes()
}

func fileExists(p string) bool {
	_, err := os.Stat(p)
	return err == nil
}

func tail(s string, n int) string {
	if len(s) > n {
		return "..." + s[len(s)-n:]
	}
	return s
}

func e2eCases(def int) int {
	if s := os.Getenv("VERIF_E2E_CASES"); s != "" {
		if n, err := strconv.Atoi(s); err == nil && n > 0 {
			return n
		}
	}
	return def
}

func e2eSeed() int {
	// derived by tools/check.py from VERIF_SEED and the shard index, passed as -verif.shard s<seed>
	n, _ := strconv.Atoi(strings.TrimPrefix(*flagShard, "s"))
	if n == 0 {
		n = 1
	}
	return n
}

func TestC15(t *testing.T) {
	col := getCollector("C15", c15Rule)
	col.sampler = func(cj []byte) []byte {
		var c c15Case
		if json.Unmarshal(cj, &c) != nil {
			return nil
		}
		type cyc struct {
			NewKeys, Fresh, Noise, Burst int
			Signal                       string
			DelayMS                      int
			Inflight                     bool
		}
		var cs []cyc
		for _, cy := range c.Cycles {
			cs = append(cs, cyc{len(cy.NewKeys), len(cy.Fresh), cy.Noise, cy.Burst, cy.Signal, cy.DelayMS, cy.Inflight})
		}
		b, _ := json.Marshal(map[string]interface{}{"summary": "templates and records omitted", "exporters": c.Exporters, "workers": c.Workers, "cycles": cs})
		return b
	}
	runRegress(t, "C15")
	gen := rapid.Custom(genC15)
	n := e2eCases(1)
	seed := e2eSeed()
	for i := 0; i < n; i++ {
		c := gen.Example(seed*1000 + i)
		v, sig, err := runC15(&c)
		col.report(t, mustJSON(c), v, sig, err)
		col.addExtra("stop_start_cycles", len(c.Cycles)+1)
	}
}

func init() {
	registerReplay("C15", func(raw json.RawMessage) error {
		var c c15Case
		if err := json.Unmarshal(raw, &c); err != nil {
			return err
		}
		for i := 0; i < 3; i++ {
			if _, _, err := runC15(&c); err != nil {
				return err
			}
		}
		return nil
	})
}
