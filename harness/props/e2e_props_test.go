package props

// End-to-end stages of C01, C12, C13 and C17 against the real collector binary (real receive loop,
// real buffer pools, real option loading in main()).

import (
	"encoding/json"
	"fmt"
	"net"
	"os"
	"path/filepath"
	"strconv"
	"strings"
	"syscall"
	"testing"
	"time"

	"pgregory.net/rapid"
	"verif/harness/wire"
)

func e2eWorkDir(prefix string) (string, error) {
	work := os.Getenv("VERIF_WORK")
	if work == "" {
		work = os.TempDir()
	}
	return os.MkdirTemp(work, prefix)
}

// otherFSDir returns a fresh directory on a file system other than the one holding the process's temporary
// directory (a cache file kept on a volume of its own is an ordinary deployment), or "" when there is none.
func otherFSDir(prefix string) string {
	var tmp syscall.Stat_t
	if syscall.Stat(os.TempDir(), &tmp) != nil {
		return ""
	}
	for _, cand := range []string{"/dev/shm", "/run/shm"} {
		var st syscall.Stat_t
		if syscall.Stat(cand, &st) != nil || st.Dev == tmp.Dev {
			continue
		}
		if d, err := os.MkdirTemp(cand, prefix); err == nil {
			return d
		}
	}
	return ""
}

// waitStats polls the stats API until cond holds.
func waitStats(p *vflowProc, d time.Duration, cond func(*flowStats) bool) (*flowStats, bool) {
	deadline := time.Now().Add(d)
	var last *flowStats
	for {
		fs, err := p.flowStats()
		if err == nil {
			last = fs
			if cond(fs) {
				return fs, true
			}
		}
		if time.Now().After(deadline) || p.exited() {
			return last, false
		}
		time.Sleep(4 * time.Millisecond)
	}
}

// ---------------------------------------------------------------- C12 / C13: pipeline through the real receive loop

type e2ePipeCase struct {
	Exporters []int  `json:"exporters"` // 127.0.0.<n>, 0 = ::1
	P         plCase `json:"pipeline"`  // exporter octets inside are ignored; Exp indexes Exporters
	// Ambient: further valid settings of the instance that the property does not depend on
	// (verbose, dynamic-workers, cpu-cap): key -> rendered value
	Ambient map[string]string `json:"ambient,omitempty"`
}

// genAmbient draws settings every property must be indifferent to.
func genAmbient(t *rapid.T) map[string]string {
	out := map[string]string{}
	if rapid.IntRange(0, 2).Draw(t, "ambverbose") == 0 {
		out["verbose"] = "true"
	}
	if rapid.IntRange(0, 2).Draw(t, "ambdyn") == 0 {
		out["dynamic-workers"] = "true"
	}
	if cap := rapid.SampledFrom([]string{"", "", "100%", "50%", "10%", "1", "2", "64"}).Draw(t, "ambcpu"); cap != "" {
		out["cpu-cap"] = fmt.Sprintf("%q", cap)
	}
	// IPFIX / sFlow mirroring towards an address nobody listens on (IPv4 or IPv6): what the collector receives,
	// decodes, publishes and how it stops must not depend on it
	if mdst := rapid.SampledFrom([]string{"", "", "", "127.0.0.98", "::1"}).Draw(t, "ambmirror"); mdst != "" {
		out["ipfix-mirror-addr"], out["sflow-mirror-addr"] = fmt.Sprintf("%q", mdst), fmt.Sprintf("%q", mdst)
		out["ipfix-mirror-port"], out["sflow-mirror-port"] = "9", "9"
		out["ipfix-mirror-workers"], out["sflow-mirror-workers"] = "2", "2"
	}
	// the shipped ipfix.elements installed in the configuration directory (C20: decoding does not depend on it)
	if el := rapid.SampledFrom([]string{"", "", "copy", "copy", "link"}).Draw(t, "ambelements"); el != "" {
		out["~elements~"] = el
	}
	// the raw-socket producer's retry limit (0 = no retries, absent = its default)
	if r := rapid.SampledFrom([]string{"", "", "0", "0", "1", "5", "~drop~"}).Draw(t, "ambretry"); r != "" {
		out["mq:retry-max"] = r
	}
	return out
}

const e2ePipeRule = " | end-to-end stage: the same generated phases are sent over real UDP sockets (exporters bound to 127.0.0.x / ::1) to the real binary in windows of <= 32 datagrams " +
	"(the sender waits for UDPCount to catch up, the kernel drop counter of the port must stay 0, otherwise the case is inconclusive); oracle = UDPCount delta == datagrams sent exactly, DecodedCount delta within the sequential bounds, " +
	"sink lines == expected payload multiset (each exactly once, nothing extra), also after a fence of further datagrams and process exit"

func genE2EPipe(t *rapid.T) e2ePipeCase {
	return genE2EPipeProto(t, rapid.SampledFrom(robustProtos).Draw(t, "proto"))
}

func genE2EPipeProto(t *rapid.T, proto string) e2ePipeCase {
	envs := map[string]*wire.GenEnv{"ipfix": wire.NewGenEnv("ipfix"), "nf9": wire.NewGenEnv("nf9")}
	envs["ipfix"].NoEnterprise = true
	envs["ipfix"].Big, envs["nf9"].Big = true, true
	c := e2ePipeCase{P: genPipeline(t, proto, envs, 250, "e2e")}
	c.Ambient = genAmbient(t)
	if c.P.UDPSize > 9000 {
		c.P.UDPSize = 9000
	}
	used := map[int]bool{}
	for len(c.Exporters) < len(c.P.Exporters) {
		n := rapid.OneOf(rapid.Just(0), rapid.IntRange(2, 250)).Draw(t, "expaddr")
		if !used[n] {
			used[n] = true
			c.Exporters = append(c.Exporters, n)
		}
	}
	return c
}

func runE2EPipe(prop string, c *e2ePipeCase) (v verdict, sig string, err error) {
	pc := &c.P
	if len(c.Exporters) != len(pc.Exporters) || len(c.Exporters) == 0 {
		return v, "", fmt.Errorf("bad case")
	}
	dir, e := e2eWorkDir("e2ep-")
	if e != nil {
		return v, "", fmt.Errorf("harness: %v", e)
	}
	defer os.RemoveAll(dir)
	sink, e := newLineSink()
	if e != nil {
		return v, "", fmt.Errorf("harness: %v", e)
	}
	defer sink.close()
	var exps []*exporterSock
	for _, n := range c.Exporters {
		ex, e := openExporter(n)
		if e != nil {
			return v, "", fmt.Errorf("harness: %v", e)
		}
		defer ex.conn.Close()
		exps = append(exps, ex)
	}
	ports, e := pickPorts()
	if e != nil {
		return v, "", e
	}
	cfg := e2eConfig{Workers: pc.Workers, UDPSize: pc.UDPSize, SinkAddr: sink.addr(), Extra: map[string]string{}}
	sizeOf := func(p string) int {
		if p == pc.Proto || pc.OtherUDPSize <= 0 {
			return pc.UDPSize
		}
		return pc.OtherUDPSize
	}
	for p, key := range map[string]string{"ipfix": "ipfix-udp-size", "nf9": "netflow9-udp-size", "nf5": "netflow5-udp-size", "sflow": "sflow-udp-size"} {
		cfg.Extra[key] = strconv.Itoa(sizeOf(p))
	}
	for k, val := range c.Ambient {
		cfg.Extra[k] = val
		v.label(true, "ambient-"+k)
	}
	if len(pc.Filter) > 0 {
		var parts []string
		for _, f := range pc.Filter {
			parts = append(parts, strconv.FormatUint(uint64(f), 10))
		}
		cfg.Extra["sflow-type-filter"] = "[" + strings.Join(parts, ", ") + "]"
	}
	proc, e := startVflow(dir, ports, cfg, false)
	if e != nil {
		return v, "", fmt.Errorf("harness: %v", e)
	}
	defer func() {
		if !proc.exited() {
			proc.kill()
		}
	}()
	port := proc.port(pc.Proto)
	replicas := map[string]*flowCache{"ipfix": newFlowCache("ipfix"), "nf9": newFlowCache("nf9")}
	fs0, err0 := proc.flowStats()
	if err0 != nil {
		return v, "", fmt.Errorf("harness: stats: %v", err0)
	}
	protos := []string{"ipfix", "nf9", "nf5", "sflow"}
	base := map[string]protoStats{}
	drops0 := 0
	for _, p := range protos {
		base[p] = *fs0.of(p)
		drops0 += udpDrops(proc.port(p))
	}
	drops := func() int {
		n := 0
		for _, p := range protos {
			n += udpDrops(proc.port(p))
		}
		return n
	}
	sent := map[string]uint64{}
	caughtUp := func(fs *flowStats) bool {
		for _, p := range protos {
			if fs.of(p).UDPCount-base[p].UDPCount < sent[p] {
				return false
			}
		}
		return true
	}
	want := map[string]int{}
	var lo, hi uint64
	classes := map[string]bool{}
	for pi, ph := range pc.Phases {
		for i := 0; i < len(ph); i += 32 {
			j := i + 32
			if j > len(ph) {
				j = len(ph)
			}
			for _, dg := range ph[i:j] {
				pname := dg.Proto
				if pname == "" {
					pname = pc.Proto
				}
				data := []byte(dg.Data)
				ex := exps[dg.Exp]
				if len(data) > 65000 {
					data = data[:65000]
				}
				if e := ex.send(proc.port(pname), data); e != nil {
					return v, "", fmt.Errorf("harness: send: %v", e)
				}
				sent[pname]++
				seen := data
				if len(seen) > sizeOf(pname) {
					seen = seen[:sizeOf(pname)]
				}
				o, perr := sequentialDecode(pname, replicas[pname], ex.addr, seen, pc.Filter)
				if perr != nil {
					return v, "seq-panic", fmt.Errorf("sequential decode: %v", perr)
				}
				if o.published {
					want[normPayloadAny(o.payload)]++
				}
				classes[dg.Class] = true
				if pname != pc.Proto {
					v.label(true, "e2e-cross-traffic")
					continue
				}
				if pc.Proto == "sflow" {
					if o.published {
						lo++
					}
					if o.clean {
						hi++
					}
				} else {
					if o.clean {
						lo++
					}
					if o.msg {
						hi++
					}
				}
			}
			// the sender waits for the receive loops to catch up, so the socket buffers cannot overflow
			_, ok := waitStats(proc, 5*time.Second, caughtUp)
			if !ok {
				if proc.exited() {
					return v, "crash", fmt.Errorf("phase %d: the collector died: %s", pi, proc.stderrTail())
				}
				if drops() > drops0 {
					v.label(true, "inconclusive-kernel-drops")
					return v, "", nil
				}
				fs, _ := proc.flowStats()
				got := uint64(0)
				if fs != nil {
					got = fs.of(pc.Proto).UDPCount - base[pc.Proto].UDPCount
				}
				return v, "udpcount-low", fmt.Errorf("phase %d: %d datagrams sent to the %s port (kernel dropped none), UDPCount moved by %d", pi, sent[pc.Proto], pc.Proto, got)
			}
		}
		// phase boundary: queues empty and everything expected so far has reached the sink
		waitStats(proc, 5*time.Second, func(fs *flowStats) bool {
			for _, p := range protos {
				if s := fs.of(p); s.UDPQueue != 0 || s.MessageQueue != 0 {
					return false
				}
			}
			return true
		})
		for p := range want {
			if !sink.waitFor(normBack(p, sink), 5*time.Second) {
				break
			}
		}
		time.Sleep(10 * time.Millisecond)
	}
	// fence: a few more datagrams, then stop the process; late duplicates would show up now
	for i := 0; i < 3; i++ {
		exps[0].send(port, []byte{0, 99, 0, 0})
		sent[pc.Proto]++
	}
	fsEnd, ok := waitStats(proc, 5*time.Second, func(fs *flowStats) bool {
		s := fs.of(pc.Proto)
		return caughtUp(fs) && s.UDPQueue == 0 && s.MessageQueue == 0
	})
	if !ok && proc.exited() {
		return v, "crash", fmt.Errorf("the collector died: %s", proc.stderrTail())
	}
	time.Sleep(30 * time.Millisecond)
	fsEnd2, _ := proc.flowStats()
	if fsEnd2 != nil {
		fsEnd = fsEnd2
	}
	proc.signal(syscall.SIGTERM)
	if !proc.waitExitFair(6 * time.Second) {
		return v, "no-exit", fmt.Errorf("collector did not exit within 6 s of SIGTERM")
	}
	if bad := stderrProblem(proc.stderrText()); bad != "" {
		return v, "crash", fmt.Errorf("collector crashed: %s", bad)
	}
	if drops() > drops0 {
		v.label(true, "inconclusive-kernel-drops")
		return v, "", nil
	}
	sentTotal := uint64(0)
	for _, p := range protos {
		sentTotal += sent[p]
		if d := fsEnd.of(p).UDPCount - base[p].UDPCount; d != sent[p] {
			return v, "udpcount", fmt.Errorf("%d datagrams sent to the %s port, its UDPCount moved by %d", sent[p], p, d)
		}
	}
	end := fsEnd.of(pc.Proto)
	if d := end.DecodedCount - base[pc.Proto].DecodedCount; d < lo || d > hi {
		return v, "decoded-count", fmt.Errorf("DecodedCount moved by %d for %d datagrams; %d decode without error, %d return a message", d, sent[pc.Proto], lo, hi)
	}
	got := map[string]int{}
	for l, n := range sink.snapshot() {
		got[normPayloadAny(l)] += n
	}
	for p, n := range got {
		if want[p] == 0 {
			return v, "extra", fmt.Errorf("the sink received a payload that no datagram decodes to: %.300s", p)
		}
		if n > want[p] {
			return v, "duplicate", fmt.Errorf("a payload was published %d times: %.300s", n, p)
		}
	}
	for p, n := range want {
		if got[p] < n {
			return v, "missing", fmt.Errorf("a datagram that yields records was not published (%d workers): %.300s", pc.Workers, p)
		}
	}
	v.label(true, "e2e")
	v.label(true, "e2e-proto-"+pc.Proto)
	v.label(len(classes) >= 3, "class-mix")
	v.NT = sentTotal > uint64(pc.Workers) && len(want) > 0
	return v, "", nil
}

// normPayloadAny blanks the collection timestamp of sFlow payloads (the sink receives all four protocols' lines).
func normPayloadAny(l string) string {
	if strings.Contains(l, `"ColTime":`) {
		return normPayload("sflow", []byte(l))
	}
	return l
}

// normBack: the sink stores raw lines; for sFlow the collection time differs, so a received line that
// normalises to the payload is looked up.
func normBack(payload string, s *lineSink) string {
	if !strings.Contains(payload, `"ColTime":`) {
		return payload
	}
	s.mu.Lock()
	defer s.mu.Unlock()
	for l := range s.seen {
		if strings.Contains(l, `"ColTime":`) && normPayload("sflow", []byte(l)) == payload {
			return l
		}
	}
	return payload
}

// e2eDecodeTest: the end-to-end stage of a decoding property (C03, C06, C07, C08): one protocol's generated traffic
// through the real binary (real socket, receive loop, workers, producer), compared with the library decode that the
// property's main check validates against the reference model.
func e2eDecodeTest(t *testing.T, prop, proto string) {
	col := getCollector(prop, "")
	col.Rule += " | end-to-end stage: generated " + proto + " traffic (generator of C12) through the real collector binary; what reaches the sink equals, message by message, the library decode of each datagram (which this check's main stage validates against the reference model); UDPCount and DecodedCount account for every datagram"
	col.sampler = func(cj []byte) []byte {
		var c e2ePipeCase
		if json.Unmarshal(cj, &c) != nil || len(c.P.Phases) == 0 {
			return cj
		}
		return summarisePipeline(mustJSON(c.P))
	}
	gen := rapid.Custom(func(t *rapid.T) e2ePipeCase { return genE2EPipeProto(t, proto) })
	n := e2eCases(1)
	seed := e2eSeed()
	for i := 0; i < n; i++ {
		c := gen.Example(seed*1000 + 400 + i)
		if prop == "C20" {
			// C20's stage: always with the shipped elements file installed (as a copy or behind a link)
			if c.Ambient == nil {
				c.Ambient = map[string]string{}
			}
			if c.Ambient["~elements~"] == "" {
				c.Ambient["~elements~"] = []string{"copy", "link", "late"}[i%3]
			}
		}
		v, sig, err := runE2EPipe(prop, &c)
		col.report(t, mustJSON(c), v, sig, err)
		col.addExtra("e2e_cases", 1)
	}
}

func TestC03E2E(t *testing.T) { e2eDecodeTest(t, "C03", "ipfix") }
func TestC06E2E(t *testing.T) { e2eDecodeTest(t, "C06", "nf9") }
func TestC07E2E(t *testing.T) { e2eDecodeTest(t, "C07", "sflow") }
func TestC08E2E(t *testing.T) { e2eDecodeTest(t, "C08", "nf5") }
func TestC20E2E(t *testing.T) {
	e2eDecodeTest(t, "C20", "ipfix")
	e2eDecodeTest(t, "C20", "nf9")
}

func e2ePipeTest(t *testing.T, prop string) {
	col := getCollector(prop, "")
	col.Rule += e2ePipeRule
	col.sampler = func(cj []byte) []byte {
		var c e2ePipeCase
		if json.Unmarshal(cj, &c) != nil {
			return nil
		}
		return summarisePipeline(mustJSON(c.P))
	}
	gen := rapid.Custom(genE2EPipe)
	n := e2eCases(1)
	seed := e2eSeed()
	for i := 0; i < n; i++ {
		c := gen.Example(seed*1000 + 500 + i)
		v, sig, err := runE2EPipe(prop, &c)
		col.report(t, mustJSON(c), v, sig, err)
		col.addExtra("e2e_cases", 1)
	}
}

func TestC12E2E(t *testing.T) { e2ePipeTest(t, "C12") }
func TestC13E2E(t *testing.T) { e2ePipeTest(t, "C13") }

// ---------------------------------------------------------------- C01: malformed datagrams against the running process

const c01E2ERule = " | end-to-end stage: generated malformed histories of all four protocols are sent to the real binary's UDP ports; in three of four cases with IPFIX / sFlow mirroring to an IPv4 or IPv6 address switched on, exporters on 127.0.0.x and ::1; the process must keep answering its stats API and exit 0 on SIGTERM"

type c01E2ECase struct {
	Histories []rbCase `json:"histories"`
	// Mirror: "" | "v4" | "v6" — IPFIX and sFlow datagrams are additionally mirrored to 127.0.0.99 / ::1 (a valid
	// configuration; whatever arrives must not terminate the process through the mirror path either)
	Mirror  string            `json:"mirror,omitempty"`
	Ambient map[string]string `json:"ambient,omitempty"`
}

func runC01E2E(c *c01E2ECase) (v verdict, sig string, err error) {
	dir, e := e2eWorkDir("e2e01-")
	if e != nil {
		return v, "", fmt.Errorf("harness: %v", e)
	}
	defer os.RemoveAll(dir)
	sink, e := newLineSink()
	if e != nil {
		return v, "", fmt.Errorf("harness: %v", e)
	}
	defer sink.close()
	ports, e := pickPorts()
	if e != nil {
		return v, "", e
	}
	extra := map[string]string{}
	for k, val := range c.Ambient {
		extra[k] = val
	}
	if c.Mirror != "" {
		dst := map[string]string{"v4": "127.0.0.99", "v6": "::1"}[c.Mirror]
		if dst == "" {
			return v, "", fmt.Errorf("bad case: mirror")
		}
		extra["ipfix-mirror-addr"], extra["sflow-mirror-addr"] = fmt.Sprintf("%q", dst), fmt.Sprintf("%q", dst)
		extra["ipfix-mirror-port"], extra["sflow-mirror-port"] = "9", "9"
		extra["ipfix-mirror-workers"], extra["sflow-mirror-workers"] = "2", "2"
		v.label(true, "mirroring-"+c.Mirror)
	}
	proc, e := startVflow(dir, ports, e2eConfig{Workers: 3, SinkAddr: sink.addr(), Extra: extra}, false)
	if e != nil {
		return v, "", fmt.Errorf("harness: %v", e)
	}
	defer func() {
		if !proc.exited() {
			proc.kill()
		}
	}()
	exps := map[int]*exporterSock{}
	defer func() {
		for _, ex := range exps {
			ex.conn.Close()
		}
	}()
	n := 0
	for hi, h := range c.Histories {
		for _, it := range h.Items {
			if it.Note == "restart" {
				continue // restarts of the real process are C15's subject
			}
			k := 2 + (hi*3+it.Exp)%200
			if (hi+it.Exp)%4 == 0 {
				k = 0 // an IPv6 exporter (::1)
			}
			ex := exps[k]
			if ex == nil {
				if ex, e = openExporter(k); e != nil {
					return v, "", fmt.Errorf("harness: %v", e)
				}
				exps[k] = ex
			}
			data := []byte(it.Data)
			if len(data) > 65000 {
				data = data[:65000]
			}
			ex.send(proc.port(h.Proto), data)
			n++
			if n%24 == 0 {
				time.Sleep(2 * time.Millisecond)
			}
		}
		if _, err := proc.flowStats(); err != nil || proc.exited() {
			time.Sleep(50 * time.Millisecond)
			if proc.exited() {
				return v, "crash", fmt.Errorf("the collector died while processing history %d (%s): %s", hi, h.Proto, proc.stderrTail())
			}
		}
	}
	_, ok := waitStats(proc, 10*time.Second, func(fs *flowStats) bool {
		return fs.IPFIX.UDPQueue == 0 && fs.NetflowV9.UDPQueue == 0 && fs.NetflowV5.UDPQueue == 0 && fs.SFlow.UDPQueue == 0
	})
	if !ok {
		if proc.exited() {
			return v, "crash", fmt.Errorf("the collector died: %s", proc.stderrTail())
		}
		return v, "stalled", fmt.Errorf("the receive queues did not drain within 10 s after %d datagrams (a worker is stuck)", n)
	}
	proc.signal(syscall.SIGTERM)
	if !proc.waitExitFair(6 * time.Second) {
		return v, "no-exit", fmt.Errorf("collector did not exit within 6 s of SIGTERM after malformed traffic")
	}
	if bad := stderrProblem(proc.stderrText()); bad != "" {
		return v, "crash", fmt.Errorf("collector crashed: %s", bad)
	}
	if proc.status != nil {
		return v, "exit-status", fmt.Errorf("exit status %v", proc.status)
	}
	v.NT = true
	v.label(true, "e2e")
	return v, "", nil
}

func TestC01E2E(t *testing.T) {
	col := getCollector("C01", "")
	col.Rule += c01E2ERule
	envs := robustEnvs()
	envs["ipfix"].NoEnterprise = true
	gen := rapid.Custom(func(t *rapid.T) c01E2ECase {
		var c c01E2ECase
		for _, proto := range robustProtos {
			for i := 0; i < 6; i++ {
				c.Histories = append(c.Histories, genRobust(t, proto, envs, false))
			}
		}
		c.Mirror = rapid.SampledFrom([]string{"", "v4", "v6", "v6"}).Draw(t, "mirror")
		c.Ambient = genAmbient(t)
		return c
	})
	n := e2eCases(1)
	seed := e2eSeed()
	for i := 0; i < n; i++ {
		c := gen.Example(seed*1000 + 700 + i)
		v, sig, err := runC01E2E(&c)
		cj := mustJSON(map[string]interface{}{"e2e": true, "histories": len(c.Histories), "seed": seed*1000 + 700 + i, "mirror": c.Mirror, "ambient": c.Ambient})
		if err != nil {
			cj = mustJSON(c)
		}
		col.report(t, cj, v, sig, err)
		col.addExtra("e2e_cases", 1)
	}
}

// ---------------------------------------------------------------- C17: generated configuration started for real

const c17E2ERule = " | end-to-end stage: generated ports / worker counts / stats port given through environment, file and command line; the real binary is started and the effective values are observed " +
	"(datagrams sent to the expected UDP ports move that protocol's UDPCount, Workers in /flow, stats API on the expected port); the <protocol>-enabled switches, the listen addresses (127.0.0.1 | ::1 | 127.0.0.3 | default: datagrams sent to each of the three are received or not accordingly) and the two cache file paths are given the same way " +
	"(a protocol that resolves to disabled runs no workers and receives nothing; at shutdown the cache files appear at the effective paths and at no other candidate path)"

type c17E2ECase struct {
	// per setting: which sources give it (bit 0 env, 1 file, 2 cli)
	Masks   map[string]int `json:"masks"`
	Workers map[string]int `json:"workers"` // values per source are derived: env = w, file = w+1, cli = w+2
	// Bools: for the <protocol>-enabled switches, the value each source gives (bit 0 env, 1 file, 2 cli; set = true)
	Bools map[string]int `json:"bools,omitempty"`
	// TopPort: the port setting whose winning source gives the highest port number, 65535
	TopPort string `json:"top_port,omitempty"`
}

func runC17E2E(c *c17E2ECase) (v verdict, sig string, err error) {
	dir, e := e2eWorkDir("e2e17-")
	if e != nil {
		return v, "", fmt.Errorf("harness: %v", e)
	}
	defer os.RemoveAll(dir)
	sink, e := newLineSink()
	if e != nil {
		return v, "", fmt.Errorf("harness: %v", e)
	}
	defer sink.close()
	// three disjoint port blocks: one per source
	var blocks [3]e2ePorts
	for i := range blocks {
		if blocks[i], e = pickPorts(); e != nil {
			return v, "", e
		}
	}
	def, e := pickPorts()
	if e != nil {
		return v, "", e
	}
	type setting struct {
		key, flag string
		val       func(e2ePorts) int
	}
	portSettings := []setting{
		{"ipfix-port", "ipfix-port", func(p e2ePorts) int { return p.IPFIX }},
		{"netflow9-port", "netflow9-port", func(p e2ePorts) int { return p.NF9 }},
		{"netflow5-port", "netflow5-port", func(p e2ePorts) int { return p.NF5 }},
		{"sflow-port", "sflow-port", func(p e2ePorts) int { return p.SFlow }},
	}
	cfg := e2eConfig{Workers: 2, SinkAddr: sink.addr(), Extra: map[string]string{}}
	eff := def
	effW := map[string]int{"ipfix-workers": 2, "netflow9-workers": 2, "netflow5-workers": 2, "sflow-workers": 2}
	apply := func(key, flag string, vals [3]int, setEff func(int)) {
		m := c.Masks[key]
		if m&1 != 0 {
			cfg.Env = append(cfg.Env, "VFLOW_"+strings.ToUpper(strings.ReplaceAll(key, "-", "_"))+"="+strconv.Itoa(vals[0]))
			setEff(vals[0])
		}
		if m&2 != 0 {
			cfg.Extra[key] = strconv.Itoa(vals[1])
			setEff(vals[1])
		}
		if m&4 != 0 {
			cfg.Args = append(cfg.Args, "-"+flag, strconv.Itoa(vals[2]))
			setEff(vals[2])
		}
		v.label(m == 7, "all-three-sources")
		v.label(m&(m-1) != 0, ">=2-sources")
	}
	for _, s := range portSettings {
		s := s
		if c.Masks[s.key]&2 == 0 {
			// startVflow always writes the port keys: without a file source the line must go
			cfg.Extra[s.key] = "~drop~"
		}
		vals := [3]int{s.val(blocks[0]), s.val(blocks[1]), s.val(blocks[2])}
		if s.key == c.TopPort && c.Masks[s.key] != 0 {
			// the source that wins gives the very top of the port range, 65535; one case at a time on this machine
			// (an abstract unix socket serves as the lock; whoever does not get it keeps its ordinary port)
			win := 0
			for bit := 0; bit < 3; bit++ {
				if c.Masks[s.key]&(1<<uint(bit)) != 0 {
					win = bit
				}
			}
			if lock, err := net.Listen("unix", "@verif-top-port-65535"); err == nil {
				defer lock.Close()
				if pc, err := net.ListenPacket("udp", ":65535"); err == nil {
					pc.Close()
					vals[win] = 65535
					v.label(true, "port-at-top-of-range")
				}
			}
		}
		apply(s.key, s.flag, vals, func(x int) {
			switch s.key {
			case "ipfix-port":
				eff.IPFIX = x
			case "netflow9-port":
				eff.NF9 = x
			case "netflow5-port":
				eff.NF5 = x
			case "sflow-port":
				eff.SFlow = x
			}
		})
	}
	for _, k := range []string{"ipfix-workers", "netflow9-workers", "netflow5-workers", "sflow-workers"} {
		k := k
		w := c.Workers[k]
		if w < 1 {
			w = 3
		}
		if c.Masks[k]&2 == 0 {
			cfg.Extra[k] = "~drop~"
			effW[k] = map[string]int{"ipfix-workers": 200, "netflow9-workers": 200, "netflow5-workers": 200, "sflow-workers": 200}[k]
		}
		apply(k, k, [3]int{w, w + 1, w + 2}, func(x int) { effW[k] = x })
	}
	// default ports of the listeners that no source configures are the built-in ones (4739, 4729, 9996, 6343):
	// they may be taken on this machine, so every port setting gets at least the file source unless generated otherwise
	for _, s := range portSettings {
		if c.Masks[s.key] == 0 {
			cfg.Extra[s.key] = strconv.Itoa(s.val(def))
		}
	}
	// enable switches: each source that gives the switch gives the value of its bit in Bools; default true
	enabled := map[string]bool{}
	enKeys := map[string]string{"ipfix": "ipfix-enabled", "nf9": "netflow9-enabled", "nf5": "netflow5-enabled", "sflow": "sflow-enabled"}
	for _, proto := range []string{"ipfix", "nf9", "nf5", "sflow"} {
		key := enKeys[proto]
		m, bits := c.Masks[key], c.Bools[key]
		enabled[proto] = true
		for bit, src := range []string{"env", "file", "cli"} {
			if m&(1<<uint(bit)) == 0 {
				continue
			}
			val := bits&(1<<uint(bit)) != 0
			switch src {
			case "env":
				cfg.Env = append(cfg.Env, "VFLOW_"+strings.ToUpper(strings.ReplaceAll(key, "-", "_"))+"="+strconv.FormatBool(val))
			case "file":
				cfg.Extra[key] = strconv.FormatBool(val)
			case "cli":
				cfg.Args = append(cfg.Args, "-"+key+"="+strconv.FormatBool(val))
			}
			enabled[proto] = val
		}
		v.label(m != 0, "enable-switch-given")
		v.label(!enabled[proto], "protocol-effectively-disabled")
	}
	cfg.ReadyWithout = map[string]bool{}
	for proto, on := range enabled {
		if !on {
			cfg.ReadyWithout[proto] = true
		}
	}
	// cache file paths: one candidate file per source; the effective one is written at shutdown
	cacheKeys := map[string]string{"ipfix": "ipfix-tpl-cache-file", "nf9": "netflow9-tpl-cache-file"}
	effCache := map[string]string{}
	candCache := map[string][]string{}
	for _, proto := range []string{"ipfix", "nf9"} {
		key := cacheKeys[proto]
		m := c.Masks[key]
		if m == 0 {
			m = 2 // never the built-in default under /tmp
		}
		cfg.Extra[key] = "~drop~"
		for bit, src := range []string{"env", "file", "cli"} {
			if m&(1<<uint(bit)) == 0 {
				continue
			}
			path := filepath.Join(dir, proto+"."+src+".templates")
			candCache[proto] = append(candCache[proto], path)
			switch src {
			case "env":
				cfg.Env = append(cfg.Env, "VFLOW_"+strings.ToUpper(strings.ReplaceAll(key, "-", "_"))+"="+path)
			case "file":
				cfg.Extra[key] = fmt.Sprintf("%q", path)
			case "cli":
				cfg.Args = append(cfg.Args, "-"+key, path)
			}
			effCache[proto] = path
		}
	}
	// listen addresses: env gives 127.0.0.1, the file ::1, the command line 127.0.0.3; default = all addresses
	addrKeys := map[string]string{"ipfix": "ipfix-addr", "nf9": "netflow9-addr", "nf5": "netflow5-addr", "sflow": "sflow-addr"}
	effAddr := map[string]string{}
	for _, proto := range []string{"ipfix", "nf9", "nf5", "sflow"} {
		key := addrKeys[proto]
		m := c.Masks[key]
		for bit, val := range []string{"127.0.0.1", "::1", "127.0.0.3"} {
			if m&(1<<uint(bit)) == 0 {
				continue
			}
			switch bit {
			case 0:
				cfg.Env = append(cfg.Env, "VFLOW_"+strings.ToUpper(strings.ReplaceAll(key, "-", "_"))+"="+val)
			case 1:
				cfg.Extra[key] = fmt.Sprintf("%q", val)
			case 2:
				cfg.Args = append(cfg.Args, "-"+key, val)
			}
			effAddr[proto] = val
		}
		v.label(m != 0, "listen-address-given")
	}
	proc, e := startVflowRaw(dir, def, cfg)
	if e != nil {
		if proc != nil && strings.Contains(proc.stderrText(), "address already in use") {
			return v, "", fmt.Errorf("harness: a generated port is taken by another process: %s", tail(proc.stderrText(), 200))
		}
		if proc != nil && proc.exited() {
			return v, "start", fmt.Errorf("collector did not start with the generated configuration (%v): %s", c.Masks, proc.stderrTail())
		}
		return v, "", fmt.Errorf("harness: %v", e)
	}
	defer func() {
		if !proc.exited() {
			proc.kill()
		}
	}()
	// the four protocols start concurrently with the stats listener: wait until all of them report workers
	fs, _ := waitStats(proc, 5*time.Second, func(fs *flowStats) bool {
		return (fs.IPFIX.Workers > 0 || !enabled["ipfix"]) && (fs.NetflowV9.Workers > 0 || !enabled["nf9"]) &&
			(fs.NetflowV5.Workers > 0 || !enabled["nf5"]) && (fs.SFlow.Workers > 0 || !enabled["sflow"])
	})
	if fs == nil {
		return v, "stats", fmt.Errorf("stats API does not answer on the expected port")
	}
	for proto, k := range map[string]string{"ipfix": "ipfix-workers", "nf9": "netflow9-workers", "nf5": "netflow5-workers", "sflow": "sflow-workers"} {
		w := fs.of(proto)
		if !enabled[proto] {
			if w.Workers != 0 {
				return v, "precedence", fmt.Errorf("%s given by sources mask %03b with values %03b resolves to false, but the protocol runs %d workers", enKeys[proto], c.Masks[enKeys[proto]], c.Bools[enKeys[proto]], w.Workers)
			}
			continue
		}
		if int(w.Workers) != effW[k] {
			return v, "precedence", fmt.Errorf("%s given by sources mask %03b: %d workers running, want %d (command line > file > environment > default)", k, c.Masks[k], w.Workers, effW[k])
		}
	}
	ex4, e := openExporter(9)
	if e != nil {
		return v, "", fmt.Errorf("harness: %v", e)
	}
	defer ex4.conn.Close()
	ex6, e := openExporter(0)
	if e != nil {
		return v, "", fmt.Errorf("harness: %v", e)
	}
	defer ex6.conn.Close()
	for _, pr := range []struct {
		proto string
		port  int
	}{{"ipfix", eff.IPFIX}, {"nf9", eff.NF9}, {"nf5", eff.NF5}, {"sflow", eff.SFlow}} {
		// which destination addresses reach the listener follows from the effective listen address
		dests := []string{"127.0.0.1", "::1", "127.0.0.3"}
		for _, famName := range dests {
			reachable := effAddr[pr.proto] == "" || effAddr[pr.proto] == famName
			before, _ := proc.flowStats()
			ex := ex4
			if famName == "::1" {
				ex = ex6
			}
			ex.conn.WriteToUDP([]byte{0, 0, 0, 1}, &net.UDPAddr{IP: net.ParseIP(famName), Port: pr.port})
			moved := func(fs *flowStats) bool { return fs.of(pr.proto).UDPCount > before.of(pr.proto).UDPCount }
			if !enabled[pr.proto] {
				// a disabled protocol listens nowhere
				if _, m := waitStats(proc, 250*time.Millisecond, moved); m {
					return v, "precedence", fmt.Errorf("%s resolves to false (masks %v, values %v) but the protocol receives datagrams on port %d", enKeys[pr.proto], c.Masks, c.Bools, pr.port)
				}
				continue
			}
			if !reachable {
				if _, m := waitStats(proc, 250*time.Millisecond, moved); m {
					return v, "precedence", fmt.Errorf("%s given by sources mask %03b resolves to %q, but a datagram sent to %s:%d was received", addrKeys[pr.proto], c.Masks[addrKeys[pr.proto]], effAddr[pr.proto], famName, pr.port)
				}
				continue
			}
			if _, ok := waitStats(proc, 3*time.Second, moved); !ok {
				return v, "precedence", fmt.Errorf("%s listener does not receive on %s port %d, which the sources make effective (port mask %03b, address %q by mask %03b)", pr.proto, famName, pr.port, c.Masks[map[string]string{"ipfix": "ipfix-port", "nf9": "netflow9-port", "nf5": "netflow5-port", "sflow": "sflow-port"}[pr.proto]], effAddr[pr.proto], c.Masks[addrKeys[pr.proto]])
			}
		}
	}
	proc.signal(syscall.SIGTERM)
	if !proc.waitExitFair(6 * time.Second) {
		return v, "no-exit", fmt.Errorf("collector with the generated configuration (masks %v, enable values %v) did not exit within 6 s of SIGTERM", c.Masks, c.Bools)
	}
	// the template caches are written at shutdown to the effective paths, and nowhere else
	for _, proto := range []string{"ipfix", "nf9"} {
		for _, path := range candCache[proto] {
			_, err := os.Stat(path)
			switch {
			case path == effCache[proto] && enabled[proto] && err != nil:
				return v, "precedence", fmt.Errorf("%s given by sources mask %03b: no cache file at the effective path %s after shutdown", cacheKeys[proto], c.Masks[cacheKeys[proto]], filepath.Base(path))
			case path != effCache[proto] && err == nil:
				return v, "precedence", fmt.Errorf("%s given by sources mask %03b: cache written to %s, effective path is %s", cacheKeys[proto], c.Masks[cacheKeys[proto]], filepath.Base(path), filepath.Base(effCache[proto]))
			}
		}
	}
	v.NT = true
	v.label(true, "e2e")
	return v, "", nil
}

// startVflowRaw is startVflow with the port keys of the generated file under the caller's control ("~drop~" removes a line).
func startVflowRaw(dir string, ports e2ePorts, cfg e2eConfig) (*vflowProc, error) {
	drop := map[string]bool{}
	for k, val := range cfg.Extra {
		if val == "~drop~" {
			drop[k] = true
			delete(cfg.Extra, k)
		}
	}
	e2eDropKeys = drop
	defer func() { e2eDropKeys = nil }()
	return startVflow(dir, ports, cfg, false)
}

var e2eDropKeys map[string]bool

func TestC17E2E(t *testing.T) {
	col := getCollector("C17", "")
	col.Rule += c17E2ERule
	keys := []string{"ipfix-port", "netflow9-port", "netflow5-port", "sflow-port", "ipfix-workers", "netflow9-workers", "netflow5-workers", "sflow-workers"}
	gen := rapid.Custom(func(t *rapid.T) c17E2ECase {
		c := c17E2ECase{Masks: map[string]int{}, Workers: map[string]int{}, Bools: map[string]int{}}
		for _, k := range []string{"ipfix-enabled", "netflow9-enabled", "netflow5-enabled", "sflow-enabled"} {
			c.Masks[k] = rapid.SampledFrom([]int{0, 0, 0, 1, 2, 4, 3, 5, 6, 7}).Draw(t, "enmask")
			c.Bools[k] = rapid.IntRange(0, 7).Draw(t, "envals")
		}
		for _, k := range []string{"ipfix-tpl-cache-file", "netflow9-tpl-cache-file"} {
			c.Masks[k] = rapid.SampledFrom([]int{2, 1, 4, 3, 6, 5, 7}).Draw(t, "cachemask")
		}
		c.TopPort = rapid.SampledFrom([]string{"", "", "ipfix-port", "netflow9-port", "netflow5-port", "sflow-port"}).Draw(t, "topport")
		for _, k := range []string{"ipfix-addr", "netflow9-addr", "netflow5-addr", "sflow-addr"} {
			c.Masks[k] = rapid.SampledFrom([]int{0, 0, 0, 1, 2, 4, 3, 5, 6, 7}).Draw(t, "addrmask")
		}
		for _, k := range keys {
			c.Masks[k] = rapid.SampledFrom([]int{7, 6, 5, 3, 4, 2, 1, 2, 6}).Draw(t, "mask")
			if strings.HasSuffix(k, "-port") && c.Masks[k] == 0 {
				c.Masks[k] = 2
			}
			c.Workers[k] = rapid.IntRange(1, 9).Draw(t, "w")
		}
		return c
	})
	n := e2eCases(1)
	seed := e2eSeed()
	for i := 0; i < n; i++ {
		c := gen.Example(seed*1000 + 900 + i)
		v, sig, err := runC17E2E(&c)
		col.report(t, mustJSON(c), v, sig, err)
		col.addExtra("e2e_cases", 1)
	}
}

func init() {
	registerReplayExtra("C17", "masks", func(raw json.RawMessage) error {
		var c c17E2ECase
		if err := json.Unmarshal(raw, &c); err != nil {
			return err
		}
		_, _, err := runC17E2E(&c)
		return err
	})
	registerReplayExtra("C01", "histories", func(raw json.RawMessage) error {
		var c c01E2ECase
		if err := json.Unmarshal(raw, &c); err != nil {
			return err
		}
		_, _, err := runC01E2E(&c)
		return err
	})
	for _, p := range []string{"C12", "C13", "C03", "C06", "C07", "C08"} {
		prop := p
		registerReplayExtra(prop, "pipeline", func(raw json.RawMessage) error {
			installEnterprise()
			var c e2ePipeCase
			if err := json.Unmarshal(raw, &c); err != nil {
				return err
			}
			_, _, err := runE2EPipe(prop, &c)
			return err
		})
	}
}
