package props

// C17 — configuration sources are applied in the documented order:
// command line > configuration file > environment variable > built-in default.

import (
	"encoding/json"
	"fmt"
	"sort"
	"strconv"
	"strings"
	"testing"

	"pgregory.net/rapid"
)

type c17Setting struct {
	Key   string      // yaml key (docs/config.md); env = VFLOW_<KEY with - -> _, upper case>
	Flag  string      // command-line flag name
	Field string      // field of Options
	Kind  string      // int | string | bool
	Def   interface{} // built-in default (vflow/options.go NewOptions)
}

// Transcribed from docs/config.md and cross-checked against NewOptions / flagSet.
var c17Table = []c17Setting{
	{"verbose", "verbose", "Verbose", "bool", false},
	{"log-file", "log-file", "LogFile", "string", ""},
	{"pid-file", "pid-file", "PIDFile", "string", "/var/run/vflow.pid"},
	{"cpu-cap", "cpu-cap", "CPUCap", "string", "100%"},
	{"dynamic-workers", "dynamic-workers", "DynWorkers", "bool", true},
	{"stats-enabled", "stats-enabled", "StatsEnabled", "bool", true},
	{"stats-format", "stats-format", "StatsFormat", "string", "prometheus"},
	{"stats-http-addr", "stats-http-addr", "StatsHTTPAddr", "string", ""},
	{"stats-http-port", "stats-http-port", "StatsHTTPPort", "string", "8081"},
	{"sflow-enabled", "sflow-enabled", "SFlowEnabled", "bool", true},
	{"sflow-port", "sflow-port", "SFlowPort", "int", 6343},
	{"sflow-addr", "sflow-addr", "SFlowAddr", "string", ""},
	{"sflow-udp-size", "sflow-max-udp-size", "SFlowUDPSize", "int", 1500},
	{"sflow-workers", "sflow-workers", "SFlowWorkers", "int", 200},
	{"sflow-topic", "sflow-topic", "SFlowTopic", "string", "vflow.sflow"},
	{"sflow-mirror-addr", "sflow-mirror-addr", "SFlowMirrorAddr", "string", ""},
	{"sflow-mirror-port", "sflow-mirror-port", "SFlowMirrorPort", "int", 4171},
	{"sflow-mirror-workers", "sflow-mirror-workers", "SFlowMirrorWorkers", "int", 5},
	{"ipfix-enabled", "ipfix-enabled", "IPFIXEnabled", "bool", true},
	{"ipfix-rpc-enabled", "ipfix-rpc-enabled", "IPFIXRPCEnabled", "bool", true},
	{"ipfix-port", "ipfix-port", "IPFIXPort", "int", 4739},
	{"ipfix-addr", "ipfix-addr", "IPFIXAddr", "string", ""},
	{"ipfix-udp-size", "ipfix-max-udp-size", "IPFIXUDPSize", "int", 1500},
	{"ipfix-workers", "ipfix-workers", "IPFIXWorkers", "int", 200},
	{"ipfix-topic", "ipfix-topic", "IPFIXTopic", "string", "vflow.ipfix"},
	{"ipfix-mirror-addr", "ipfix-mirror-addr", "IPFIXMirrorAddr", "string", ""},
	{"ipfix-mirror-port", "ipfix-mirror-port", "IPFIXMirrorPort", "int", 4172},
	{"ipfix-mirror-workers", "ipfix-mirror-workers", "IPFIXMirrorWorkers", "int", 5},
	{"ipfix-tpl-cache-file", "ipfix-tpl-cache-file", "IPFIXTplCacheFile", "string", "/tmp/vflow.templates"},
	{"netflow5-enabled", "netflow5-enabled", "NetflowV5Enabled", "bool", true},
	{"netflow5-port", "netflow5-port", "NetflowV5Port", "int", 9996},
	{"netflow5-addr", "netflow5-addr", "NetflowV5Addr", "string", ""},
	{"netflow5-udp-size", "netflow5-max-udp-size", "NetflowV5UDPSize", "int", 1500},
	{"netflow5-workers", "netflow5-workers", "NetflowV5Workers", "int", 200},
	{"netflow5-topic", "netflow5-topic", "NetflowV5Topic", "string", "vflow.netflow5"},
	{"netflow9-enabled", "netflow9-enabled", "NetflowV9Enabled", "bool", true},
	{"netflow9-port", "netflow9-port", "NetflowV9Port", "int", 4729},
	{"netflow9-addr", "netflow9-addr", "NetflowV9Addr", "string", ""},
	{"netflow9-udp-size", "netflow9-max-udp-size", "NetflowV9UDPSize", "int", 1500},
	{"netflow9-workers", "netflow9-workers", "NetflowV9Workers", "int", 200},
	{"netflow9-topic", "netflow9-topic", "NetflowV9Topic", "string", "vflow.netflow9"},
	{"netflow9-tpl-cache-file", "netflow9-tpl-cache-file", "NetflowV9TplCacheFile", "string", "/tmp/netflowv9.templates"},
	{"producer-enabled", "producer-enabled", "ProducerEnabled", "bool", true},
	{"mq-name", "mqueue", "MQName", "string", "kafka"},
	{"mq-config-file", "mqueue-conf", "MQConfigFile", "string", "mq.conf"},
}

type c17Source struct {
	Src string `json:"src"` // env | file | cli
	Val string `json:"val"` // textual value
}

type c17Key struct {
	Idx     int         `json:"idx"` // index into c17Table
	Key     string      `json:"key"`
	Sources []c17Source `json:"sources"`
}

type c17Case struct {
	Keys   []c17Key `json:"keys"`
	Filter []uint32 `json:"filter,omitempty"` // -sflow-type-filter a,b,c
	// FilterSplit in 1..len(Filter)-1: the list is given by two occurrences of the flag, the first FilterSplit entries
	// in one and the rest in the other: every type the operator lists on the command line is in the filter
	FilterSplit int  `json:"filter_split,omitempty"`
	EqForm      bool `json:"eq_form"` // -k=v instead of -k v for non-boolean flags
	// ConfigPos: where "-config <file>" stands among the command-line settings (0 = first, n = after n of them)
	ConfigPos int `json:"config_pos,omitempty"`
	// ConfigVia: how the path given to -config reaches the file: "" = plain path, "symlink" = a symbolic link to the
	// file (a ConfigMap mount, a "current" release link), "dirlink" = through a linked directory, "unclean" = a path
	// with . and .. components
	ConfigVia string `json:"config_via,omitempty"`
	// ExtraEnv: VFLOW_* variables that name no scalar setting (the list-valued sflow-type-filter, unknown keys,
	// near misses): they must not influence how any other setting is resolved
	ExtraEnv map[string]string `json:"extra_env,omitempty"`
	// BadFile: indexes (into the table) of settings the case does not otherwise use, given in the file with a value of
	// the wrong type (a number for a switch, a list for a number or a text): whatever becomes of THAT setting, every
	// other setting of the file still counts
	BadFile []int `json:"bad_file,omitempty"`
	// CommentKB > 0: the file carries that many KiB of comment and blank lines (a commented template of a configuration,
	// a generated file with a long licence header); CommentAt: 0 = before the settings, 1 = between them, 2 = after them
	CommentKB int `json:"comment_kb,omitempty"`
	CommentAt int `json:"comment_at,omitempty"`
}

const c17Rule = "case = 1..8 settings from the 45-entry table (yaml key, flag name, VFLOW_* variable, kind, default; transcribed from docs/config.md and NewOptions), each given by a random non-empty subset of " +
	"{environment, configuration file (-config <file>, placed before, between or after the other flags; the path plain, a symbolic link to the file, through a linked directory, with . and .. components, or relative to the working directory as a bare file name or ./name), command line} with distinct valid values (ports/sizes/worker counts in range, booleans, strings incl. ones needing YAML quoting; a source may also pin the built-in default value), in a tenth of the cases the file also carries 1..300 KiB of comment and blank lines before, between or after the settings; optionally -sflow-type-filter a,b,c (in a third of those cases as two occurrences of the flag: every listed type is in the effective filter); " +
	"executed by the real option loading (environment, YAML file, flags) in the package-main driver; oracle = effective value is the command line's, else the file's, else the environment's, else the default; untouched settings keep their defaults; " +
	"the filter option parses to [a,b,c]; non-trivial = some setting has >= 2 sources; distinct by hash"

var c17Strings = []string{"x", "vflow.test", "/tmp/some file.log", "a: b", "#not a comment", "yes", "123", "0x10", "null", "~", "with \"quote\"", "back\\slash",
	"ünï", "50%", "127.0.0.1", "::1", "[::]:8081", "kafka.segmentio", "rawSocket", "-dash", "tab\tsep", "{curly}", "[1,2]", "'single'", "a,b", "  padded  ",
	"a=b", "k=v=w", "=lead", "trail=", "/var/lib/vflow/site=ams1/tpl.cache", "--x=y", "a b=c d", "$HOME", "${X}", "%s", "a;b", "a|b", "x\ny"}

func genC17(t *rapid.T) c17Case {
	var c c17Case
	c.EqForm = rapid.Bool().Draw(t, "eqform")
	c.ConfigPos = rapid.SampledFrom([]int{0, 0, 1, 2, 99}).Draw(t, "configpos")
	c.ConfigVia = rapid.SampledFrom([]string{"", "", "", "symlink", "symlink", "dirlink", "unclean", "bare", "bare", "relative"}).Draw(t, "configvia")
	if rapid.IntRange(0, 9).Draw(t, "commented") == 0 {
		c.CommentKB = rapid.SampledFrom([]int{1, 3, 63, 64, 65, 70, 130, 300}).Draw(t, "commentkb")
		c.CommentAt = rapid.IntRange(0, 2).Draw(t, "commentat")
	}
	n := rapid.IntRange(1, 8).Draw(t, "nkeys")
	perm := rapid.Permutation(intRange(len(c17Table))).Draw(t, "keys")
	for _, idx := range perm[:n] {
		s := c17Table[idx]
		k := c17Key{Idx: idx, Key: s.Key}
		mask := rapid.SampledFrom([]int{7, 6, 5, 3, 4, 2, 1, 7, 6}).Draw(t, "sources")
		used := map[string]bool{}
		for bit, src := range []string{"env", "file", "cli"} {
			if mask&(1<<uint(bit)) == 0 {
				continue
			}
			var v string
			// a source may also pin a setting to its built-in default value (a higher-ranking source giving the
			// default must still beat a lower-ranking one giving something else)
			if def := fmt.Sprint(s.Def); def != "" && !used[def] && rapid.IntRange(0, 3).Draw(t, "pindefault") == 0 {
				used[def] = true
				k.Sources = append(k.Sources, c17Source{Src: src, Val: def})
				continue
			}
			for try := 0; try < 20; try++ {
				switch s.Kind {
				case "int":
					v = strconv.Itoa(rapid.OneOf(rapid.IntRange(1, 65535), rapid.SampledFrom([]int{1, 2, 64, 1500, 9000, 65507, 65535})).Draw(t, "int"))
				case "bool":
					v = rapid.SampledFrom([]string{"true", "false"}).Draw(t, "bool")
				default:
					v = rapid.SampledFrom(c17Strings).Draw(t, "str")
					if src != "env" && rapid.IntRange(0, 9).Draw(t, "emptystr") == 0 {
						v = "" // an empty text is a value like any other for the file and the command line
					}
					if src == "env" && v == "" {
						continue
					}
				}
				if !used[v] || s.Kind == "bool" {
					break
				}
			}
			used[v] = true
			k.Sources = append(k.Sources, c17Source{Src: src, Val: v})
		}
		c.Keys = append(c.Keys, k)
	}
	if rapid.IntRange(0, 3).Draw(t, "withfilter") == 0 {
		c.Filter = rapid.SliceOfN(rapid.OneOf(rapid.Uint32Range(0, 5), rapid.Uint32()), 1, 12).Draw(t, "filter")
		if len(c.Filter) >= 2 && rapid.IntRange(0, 2).Draw(t, "splitfilter") == 0 {
			c.FilterSplit = rapid.IntRange(1, len(c.Filter)-1).Draw(t, "filtersplit")
		}
	}
	if rapid.IntRange(0, 3).Draw(t, "withbadfile") == 0 {
		for _, idx := range perm[n:] {
			if len(c.BadFile) < 2 && rapid.Bool().Draw(t, "badthis") {
				c.BadFile = append(c.BadFile, idx)
			}
		}
	}
	if rapid.IntRange(0, 2).Draw(t, "withextraenv") == 0 {
		c.ExtraEnv = map[string]string{}
		names := []string{"VFLOW_SFLOW_TYPE_FILTER", "VFLOW_SFLOW_TYPE_FILTER", "VFLOW_NO_SUCH_KEY", "VFLOW_IPFIX", "VFLOW_IPFIX_PORT_", "VFLOW_CONFIG", "VFLOW_LOGGER", "VFLOW_VERSION", "vflow_ipfix_port", "VFLOW_IPFIX-PORT"}
		vals := []string{"1", "1,2", "[1, 2]", "true", "x", "4739", "0"}
		for i, n := 0, rapid.IntRange(1, 3).Draw(t, "nextra"); i < n; i++ {
			c.ExtraEnv[rapid.SampledFrom(names).Draw(t, "extraname")] = rapid.SampledFrom(vals).Draw(t, "extraval")
		}
	}
	return c
}

func intRange(n int) []int {
	out := make([]int, n)
	for i := range out {
		out[i] = i
	}
	return out
}

func yamlQuote(s string) string {
	b, _ := json.Marshal(s) // a JSON string is a valid YAML double-quoted scalar
	return string(b)
}

func runC17(c *c17Case) (v verdict, sig string, err error) {
	req := drvRequest{Op: "options", Env: map[string]string{}}
	var cfg []string
	want := map[string]interface{}{}
	for _, s := range c17Table {
		want[s.Field] = s.Def
	}
	multi := false
	for _, k := range c.Keys {
		if k.Idx < 0 || k.Idx >= len(c17Table) {
			return v, "", fmt.Errorf("bad case: key index")
		}
		s := c17Table[k.Idx]
		if len(k.Sources) >= 2 {
			multi = true
		}
		best := ""
		rank := map[string]int{"env": 1, "file": 2, "cli": 3}
		bestRank := 0
		for _, src := range k.Sources {
			switch src.Src {
			case "env":
				req.Env["VFLOW_"+strings.ToUpper(strings.ReplaceAll(s.Key, "-", "_"))] = src.Val
			case "file":
				if s.Kind == "string" {
					cfg = append(cfg, s.Key+": "+yamlQuote(src.Val))
				} else {
					cfg = append(cfg, s.Key+": "+src.Val)
				}
			case "cli":
				if s.Kind == "bool" || c.EqForm {
					req.Args = append(req.Args, "-"+s.Flag+"="+src.Val)
				} else {
					req.Args = append(req.Args, "-"+s.Flag, src.Val)
				}
			default:
				return v, "", fmt.Errorf("bad case: source %q", src.Src)
			}
			if rank[src.Src] > bestRank {
				bestRank, best = rank[src.Src], src.Val
			}
			v.label(true, "source-"+src.Src)
		}
		v.label(len(k.Sources) == 3, "all-three-sources")
		v.label(true, "kind-"+s.Kind)
		switch s.Kind {
		case "int":
			n, _ := strconv.Atoi(best)
			want[s.Field] = n
		case "bool":
			want[s.Field] = best == "true"
		default:
			want[s.Field] = best
		}
	}
	skipAssert := map[string]bool{}
	for _, idx := range c.BadFile {
		if idx < 0 || idx >= len(c17Table) {
			return v, "", fmt.Errorf("bad case: bad_file index")
		}
		s := c17Table[idx]
		for _, k := range c.Keys {
			if k.Idx == idx {
				return v, "", fmt.Errorf("bad case: bad_file names a setting the case uses")
			}
		}
		switch s.Kind {
		case "bool":
			cfg = append(cfg, s.Key+": 7")
		case "int":
			cfg = append(cfg, s.Key+": [1, 2]")
		default:
			cfg = append(cfg, s.Key+": [a, b]")
		}
		skipAssert[s.Field] = true
		v.label(true, "ill-typed-sibling-in-file")
	}
	for k, val := range c.ExtraEnv {
		if _, clash := req.Env[k]; clash || !strings.HasPrefix(strings.ToUpper(k), "VFLOW") {
			return v, "", fmt.Errorf("bad case: extra environment variable %q", k)
		}
		for _, s := range c17Table {
			if k == "VFLOW_"+strings.ToUpper(strings.ReplaceAll(s.Key, "-", "_")) {
				return v, "", fmt.Errorf("bad case: extra environment variable %q names a setting", k)
			}
		}
		req.Env[k] = val
		v.label(true, "extra-env-variable")
		v.label(k == "VFLOW_SFLOW_TYPE_FILTER", "env-for-list-valued-setting")
	}
	if len(c.Filter) > 0 {
		var parts []string
		for _, f := range c.Filter {
			parts = append(parts, strconv.FormatUint(uint64(f), 10))
		}
		if c.FilterSplit > 0 && c.FilterSplit < len(parts) {
			req.Args = append(req.Args, "-sflow-type-filter", strings.Join(parts[:c.FilterSplit], ","), "-sflow-type-filter", strings.Join(parts[c.FilterSplit:], ","))
			v.label(true, "type-filter-given-by-two-occurrences-of-the-flag")
		} else {
			req.Args = append(req.Args, "-sflow-type-filter", strings.Join(parts, ","))
		}
		v.label(true, "type-filter-option")
	}
	if len(cfg) > 0 {
		sort.Strings(cfg)
		if c.CommentKB > 0 && c.CommentKB <= 1024 {
			var cm []string
			for n, i := 0, 0; n < c.CommentKB<<10; i++ {
				l := []string{"# vflow configuration - see docs/config.md for every key and its default", "", "#   ipfix-port: 4739   (commented out: the default applies)", "# ---------------------------------------------------------------------------"}[i%4]
				cm = append(cm, l)
				n += len(l) + 1
			}
			at := map[int]int{0: 0, 1: len(cfg) / 2, 2: len(cfg)}[c.CommentAt%3]
			cfg = append(append(append([]string{}, cfg[:at]...), cm...), cfg[at:]...)
			v.label(true, "config-file-with-comments")
			v.label(c.CommentKB >= 64, "config-file>=64KiB")
		}
		text := strings.Join(cfg, "\n") + "\n"
		req.Config = &text
		switch c.ConfigVia {
		case "", "symlink", "dirlink", "unclean", "bare", "relative":
			req.ConfigVia = c.ConfigVia
			v.label(c.ConfigVia != "", "config-file-reached-through-"+c.ConfigVia)
		default:
			return v, "", fmt.Errorf("bad case: config_via")
		}
		if c.ConfigPos > 0 {
			// "-config <file>" after some (or all) of the other flags; arguments come in flag/value groups
			var groups [][]string
			for i := 0; i < len(req.Args); i++ {
				g := []string{req.Args[i]}
				if !strings.Contains(req.Args[i], "=") && i+1 < len(req.Args) {
					i++
					g = append(g, req.Args[i])
				}
				groups = append(groups, g)
			}
			pos := c.ConfigPos
			if pos > len(groups) {
				pos = len(groups)
			}
			var args []string
			for i, g := range groups {
				if i == pos {
					args = append(args, "@CONFIG@")
				}
				args = append(args, g...)
			}
			if pos >= len(groups) {
				args = append(args, "@CONFIG@")
			}
			req.Args = args
			v.label(len(groups) > 0, "config-flag-after-other-flags")
		}
	}
	v.NT = multi

	d, e := drivers.get(false, 5000)
	if e != nil {
		return v, "", e
	}
	resp, died, diag := d.call(&req)
	if died {
		drivers.drop(false)
		return v, "crash", fmt.Errorf("option loading terminated the process: %s", diag)
	}
	if resp.Error != "" {
		return v, "", fmt.Errorf("harness: driver error: %s", resp.Error)
	}
	for _, s := range c17Table {
		if skipAssert[s.Field] {
			continue
		}
		got, ok := resp.Options[s.Field]
		if !ok {
			return v, "missing", fmt.Errorf("setting %s (%s) is not part of the effective options", s.Key, s.Field)
		}
		w := want[s.Field]
		match := false
		switch x := w.(type) {
		case int:
			f, ok := got.(float64)
			match = ok && int(f) == x
		case bool:
			b, ok := got.(bool)
			match = ok && b == x
		case string:
			g, ok := got.(string)
			match = ok && g == x
		}
		if !match {
			touched := false
			for _, k := range c.Keys {
				if k.Key == s.Key {
					touched = true
					return v, "precedence", fmt.Errorf("setting %s given by %v: effective value %v, want %v (command line > file > environment > default)", s.Key, k.Sources, got, w)
				}
			}
			if !touched {
				return v, "default", fmt.Errorf("setting %s was not given anywhere: effective value %v, built-in default %v", s.Key, got, w)
			}
		}
	}
	// the filter option is a parser: a,b,c -> [a,b,c]
	gotF, _ := resp.Options["SFlowTypeFilter"].([]interface{})
	if _, envFilter := c.ExtraEnv["VFLOW_SFLOW_TYPE_FILTER"]; envFilter && len(c.Filter) == 0 {
		// the property says nothing about list-valued settings in the environment: only the command line form is checked
		return v, "", nil
	}
	if c.FilterSplit > 0 && c.FilterSplit < len(c.Filter) {
		// two occurrences: as sets (how a collector orders or de-duplicates the entries is its own business)
		have := map[uint32]bool{}
		for _, g := range gotF {
			if x, ok := g.(float64); ok {
				have[uint32(x)] = true
			}
		}
		for _, f := range c.Filter {
			if !have[f] {
				return v, "filter", fmt.Errorf("-sflow-type-filter %v -sflow-type-filter %v: effective filter %v lacks %d", c.Filter[:c.FilterSplit], c.Filter[c.FilterSplit:], gotF, f)
			}
		}
		if len(have) > len(c.Filter) {
			return v, "filter", fmt.Errorf("-sflow-type-filter given twice (%v): effective filter %v holds entries nobody listed", c.Filter, gotF)
		}
		return v, "", nil
	}
	if len(gotF) != len(c.Filter) {
		return v, "filter", fmt.Errorf("-sflow-type-filter %v parsed to %v", c.Filter, gotF)
	}
	for i, f := range c.Filter {
		if x, ok := gotF[i].(float64); !ok || uint32(x) != f {
			return v, "filter", fmt.Errorf("-sflow-type-filter %v parsed to %v", c.Filter, gotF)
		}
	}
	return v, "", nil
}

func TestC17(t *testing.T) {
	col := getCollector("C17", c17Rule)
	defer drivers.stopAll()
	runRegress(t, "C17")
	rapid.Check(t, func(t *rapid.T) {
		c := genC17(t)
		v, sig, err := runC17(&c)
		col.report(t, mustJSON(c), v, sig, err)
	})
}

func init() {
	registerReplay("C17", func(raw json.RawMessage) error {
		defer drivers.stopAll()
		var c c17Case
		if err := json.Unmarshal(raw, &c); err != nil {
			return err
		}
		_, _, err := runC17(&c)
		return err
	})
}
