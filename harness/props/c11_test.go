package props

// C11 — the template cache survives restart; any cache file content is safe to load.
// (a) round trip, (b) every crash prefix of the saved file, (c) byte- and structure-level corruptions.

import (
	"bytes"
	"encoding/json"
	"fmt"
	"io"
	"net"
	"os"
	"path/filepath"
	"reflect"
	"regexp"
	"strconv"
	"strings"
	"sync"
	"testing"
	"time"

	"pgregory.net/rapid"
	"verif/harness/wire"
)

type c11Mut struct {
	Kind string `json:"kind"` // byte-level: flip del ins dup ; structure-level: see applyStructMut
	A    int    `json:"a,omitempty"`
	B    int    `json:"b,omitempty"`
	V    string `json:"v,omitempty"`
}

type c11Case struct {
	Hist c04Case  `json:"hist"`
	Muts []c11Mut `json:"muts"`
	// PrefixSeed selects the sampled prefix offsets when the file is too large to enumerate every one.
	PrefixSeed int `json:"prefix_seed"`
	// Prefill: what the cache file path holds before the save (the collector saves over its previous file):
	// "" = nothing, "pretty" = the same cache re-indented (valid, longer), "tail" = the saved document followed
	// by extra octets, "big" = a long unrelated document, "older" = an older, longer dump of another cache
	Prefill string `json:"prefill,omitempty"`
	// Weird: datagrams from one more exporter announcing adversarial templates (no fields, zero-length fields,
	// huge or variable lengths on any type): they are part of the reachable cache contents and must survive,
	// or at least not endanger, the round trip of everybody else's templates
	Weird []wire.Hex `json:"weird,omitempty"`
	// OtherFS: the cache file lives on a file system other than the temporary directory's
	OtherFS bool `json:"other_fs,omitempty"`
	// Bulk > 0: besides the history's templates the cache holds a large population (a busy collector after weeks):
	// 1 = about 1.5 MiB of cache file, 2 = about 5 MiB, 3 = about 20 MiB; the round trip is checked on the history's
	// keys and a sample of the bulk keys, the crash-point and corruption parts are left to the small caches
	Bulk int `json:"bulk,omitempty"`
	// Later: after the round trip one saved template is announced again with a changed definition — to the cache that
	// was loaded from the file (a restarted collector) or to the cache that wrote it (a collector that saves more than
	// once) — and that cache is saved over the file: loading it must give the new definition for that key and the
	// saved ones for every other key
	Later *c11Later `json:"later,omitempty"`
}

type c11Later struct {
	Via  string `json:"via"`  // loaded | same
	Kind string `json:"kind"` // scope | field | swap | fresh | none (nothing changes: the second save must still be complete)
	Slot int    `json:"slot"`
	A    int    `json:"a"`
}

// tweakTemplate derives the changed definition: one scope or ordinary field names another element of the same type and
// length (everything else, counts included, stays), two fields change places, or a wholly different template.
func tweakTemplate(tp *wire.Template, l *c11Later, proto string) (wire.Template, bool) {
	out := wire.Template{ID: tp.ID, Options: tp.Options, Scope: append([]wire.Field{}, tp.Scope...), Fields: append([]wire.Field{}, tp.Fields...)}
	kind := l.Kind
	if kind == "scope" && len(out.Scope) == 0 {
		kind = "field"
	}
	switch kind {
	case "scope", "field":
		return wire.RetouchTemplate(tp, kind == "scope", l.A)
	case "swap":
		for _, fs := range [][]wire.Field{out.Scope, out.Fields} {
			for i := 0; i+1 < len(fs); i++ {
				if fs[i] != fs[i+1] {
					fs[i], fs[i+1] = fs[i+1], fs[i]
					return out, true
				}
			}
		}
	case "fresh":
		out.Options, out.Scope = false, nil
		out.Fields = append([]wire.Field{}, probeTpl.Fields...)
		if len(tp.Scope) == 0 && len(tp.Fields) == len(out.Fields) && tp.Fields[0] == out.Fields[0] && tp.Fields[1] == out.Fields[1] && tp.Fields[2] == out.Fields[2] {
			return out, false
		}
		return out, true
	}
	return out, false
}

const c11Rule = "case = a template cache built by a generated announce/re-announce/data history (IPFIX or NetFlow v9, several exporters, plain/options/enterprise templates, optionally adversarial templates with no or zero-length fields from one more exporter) dumped to a file F (in a quarter of the cases on a file system other than the temporary directory's; to a fresh path, or over an existing longer file: the same cache re-indented, a document with trailing octets, a long unrelated document), " +
	"+ up to 40 corruptions of F; (a) round trip: after GetCache(F) every saved (exporter,id) decodes data exactly as before (records and error text), unannounced pairs stay unknown, and saving the loaded cache again reproduces the file (the same JSON, or a file that loads to the same templates); (a') in half of the cases one saved template is then announced again with a changed definition (one scope or ordinary field names another element of the same type and length, two fields change places, a wholly different template, or nothing changes) to the loaded cache or to the cache that wrote the file, that cache is saved over the file, and loading it must give the new definition for that key and the saved one for every other key; " +
	"(b) crash points: EVERY prefix F[:k] (all k when |F| <= 6 KiB, otherwise the first/last 1.5 KiB, 64 octets around every shard boundary and 600 sampled offsets) is loaded; " +
	"(c) byte-level (flip, delete, insert, duplicate a range) and structure-level corruptions via a generic JSON tree (drop/null shards, null or wrongly typed Templates, extra shards, wrong/huge/negative/string ShardNo, " +
	"null or garbage template entries, entry keys that are empty / too short / odd / not hexadecimal / very long / in the wrong shard, non-object documents, duplicate keys, deep nesting; every template's time of announcement moved 32 min .. 10 years back, to 0 or -1, or ahead) plus absent/empty/directory paths; " +
	"oracle = loading never panics and every call comes back (a call that sits blocked for half a minute with the process idle is a violation); the loaded cache is usable: announcing a template and decoding data works for 32 probe keys covering all 32 shards and agrees with the reference model; " +
	"for prefixes and removal-only corruptions every saved key yields 'unknown' or exactly its saved template; " +
	"non-trivial = some corrupted file still parses as JSON with a shape different from the saved one, or a prefix cuts inside a template; distinct by hash"

// ---------------------------------------------------------------- probe keys: one per shard

var (
	probeOnce sync.Once
	probeKeys [32]c04Slot
)

func findProbeKeys() {
	probeOnce.Do(func() {
		found := 0
		for i := 0; found < 32 && i < 100000; i++ {
			s := c04Slot{Addr: []byte{198, 18, byte(i >> 8), byte(i)}, ID: uint16(300 + i%7)}
			sh := fnvKey(s.Addr, s.ID) % 32
			if probeKeys[sh].Addr == nil {
				probeKeys[sh] = s
				found++
			}
		}
	})
}

var probeTpl = wire.Template{Fields: []wire.Field{{ID: 8, Len: 4, Type: wire.TIPv4}, {ID: 7, Len: 2, Type: wire.TUint16}, {ID: 1, Len: 8, Type: wire.TUint64}}}

// usable: announce + data on all 32 shards must work on the loaded cache.
func usable(cache *flowCache) error {
	findProbeKeys()
	for sh, k := range probeKeys {
		tp := probeTpl
		tp.ID = k.ID
		m := wire.Msg{Proto: cache.proto, Seq: 1, Sets: []wire.Set{{Kind: "tpl", Tpls: []wire.Template{tp}}}}
		res, perr := cache.decodeFlow(wire.ExactIP(k.Addr), m.Bytes())
		if perr != nil {
			return fmt.Errorf("announcing a template on shard %d of the loaded cache: %v", sh, perr)
		}
		if res.Nil || res.Err != nil {
			return fmt.Errorf("announcing a template on shard %d of the loaded cache failed: %v", sh, res.Err)
		}
		d := wire.Msg{Proto: cache.proto, Seq: 2, Sets: []wire.Set{{Kind: "data", Tpl: &tp, Recs: []wire.Record{{Vals: []wire.Hex{{10, 0, 0, byte(sh)}, {0, 80}, {0, 0, 0, 0, 0, 0, 1, byte(sh)}}}}}}}
		res, perr = cache.decodeFlow(wire.ExactIP(k.Addr), d.Bytes())
		if perr != nil {
			return fmt.Errorf("decoding data on shard %d of the loaded cache: %v", sh, perr)
		}
		if res.Nil || res.Err != nil {
			return fmt.Errorf("decoding data on shard %d of the loaded cache failed: %v", sh, res.Err)
		}
		if diff := wire.CompareRecords(res.Recs, wire.ExpectMsg(&d)); diff != "" {
			return fmt.Errorf("loaded cache, shard %d: %s", sh, diff)
		}
	}
	return nil
}

// sameCacheFile: the same octets, or the same JSON document(s) up to the order of object members.
func sameCacheFile(a, b []byte) bool {
	if bytes.Equal(a, b) {
		return true
	}
	docs := func(x []byte) ([]interface{}, bool) {
		dec := json.NewDecoder(bytes.NewReader(x))
		var out []interface{}
		for {
			var d interface{}
			if e := dec.Decode(&d); e == io.EOF {
				return out, true
			} else if e != nil {
				return nil, false
			}
			out = append(out, d)
		}
	}
	da, oka := docs(a)
	db, okb := docs(b)
	return oka && okb && reflect.DeepEqual(da, db)
}

func safeLoad(proto, file string) (c *flowCache, perr error) {
	defer func() {
		if r := recover(); r != nil {
			perr = fmt.Errorf("GetCache panicked: %v", r)
		}
	}()
	return loadFlowCache(proto, file), nil
}

// probeSaved decodes one data message per saved key; returns per key "unknown" or the decoded records.
type savedProbe struct {
	slot c04Slot
	tpl  *wire.Template
	msg  wire.Msg
}

func savedProbes(c *c04Case, model map[int]*wire.Template) []savedProbe {
	var out []savedProbe
	for i := range c.Slots {
		tp := model[i]
		if tp == nil {
			continue
		}
		rec := wire.Record{}
		for k, f := range tp.All() {
			n := int(f.Len)
			if f.Len == wire.VarLen {
				n = 3
			}
			v := make([]byte, n)
			for j := range v {
				v[j] = byte(1 + k + j)
			}
			if f.Type == wire.TBoolean && n == 1 {
				v[0] = 1
			}
			rec.Vals = append(rec.Vals, v)
		}
		m := wire.Msg{Proto: c.Proto, Seq: 9, Sets: []wire.Set{{Kind: "data", Tpl: tp, Recs: []wire.Record{rec}}}}
		out = append(out, savedProbe{slot: c.Slots[i], tpl: tp, msg: m})
	}
	return out
}

// checkNothingInvented: every saved key yields "unknown" or exactly the saved template's decode.
func checkNothingInvented(cache *flowCache, probes []savedProbe, mustHave bool) error {
	for _, p := range probes {
		res, perr := cache.decodeFlow(wire.ExactIP(p.slot.Addr), p.msg.Bytes())
		if perr != nil {
			return perr
		}
		unknown := !res.Nil && len(res.Recs) == 0 && res.Err != nil && strings.Contains(strings.ToLower(res.Err.Error()), "unknown")
		if unknown && !mustHave {
			continue
		}
		if res.Nil || res.Err != nil {
			return fmt.Errorf("saved template of exporter %x id %d: decode after load fails: %v", []byte(p.slot.Addr), p.slot.ID, res.Err)
		}
		if d := wire.CompareRecords(res.Recs, wire.ExpectMsg(&p.msg)); d != "" {
			return fmt.Errorf("exporter %x id %d decodes differently after load (template not the saved one): %s", []byte(p.slot.Addr), p.slot.ID, d)
		}
	}
	return nil
}

// ---------------------------------------------------------------- corruptions

var structKinds = []string{"drop-shard", "null-shard", "null-templates", "wrong-templates", "extra-shards", "shardno", "cache-wrong", "remove-entry",
	"entry-garbage", "doc-wrong", "dup-key", "deep", "template-wrong-types", "empty-cache-array", "count-mismatch", "specifier-tweak", "key-tweak", "key-tweak", "timestamps", "timestamps"}

var removalOnly = map[string]bool{"drop-shard": true, "null-shard": true, "null-templates": true, "remove-entry": true, "empty-cache-array": true, "timestamps": true}

func genC11Muts(t *rapid.T) []c11Mut {
	var out []c11Mut
	n := rapid.IntRange(8, 40).Draw(t, "nmuts")
	for i := 0; i < n; i++ {
		if rapid.IntRange(0, 2).Draw(t, "bytelevel") == 0 {
			out = append(out, c11Mut{Kind: rapid.SampledFrom([]string{"flip", "del", "ins", "dup"}).Draw(t, "bkind"),
				A: rapid.IntRange(0, 1<<20).Draw(t, "a"), B: rapid.IntRange(0, 1<<20).Draw(t, "b")})
			continue
		}
		m := c11Mut{Kind: rapid.SampledFrom(structKinds).Draw(t, "skind"), A: rapid.IntRange(0, 64).Draw(t, "sa"), B: rapid.IntRange(0, 64).Draw(t, "sb")}
		switch m.Kind {
		case "shardno":
			m.V = rapid.SampledFrom([]string{"0", "31", "33", "-1", "1e18", "\"32\"", "null", "32.5", "32", "[32]", "{}"}).Draw(t, "shardno")
		case "wrong-templates", "cache-wrong", "entry-garbage", "doc-wrong":
			m.V = rapid.SampledFrom([]string{"null", "\"x\"", "12", "[]", "{}", "[1,2,3]", "true", "{\"Templates\":5}", "[null]", "{\"a\":{\"b\":[{}]}}"}).Draw(t, "garbage")
		}
		out = append(out, m)
	}
	return out
}

var tsRe = regexp.MustCompile(`"Timestamp":-?[0-9]+`)

// callReturns runs f and reports whether it came back: a call that is still out after ten seconds is given more time
// (five minutes at most) only while the process keeps using processor time; one that sits blocked is reported.
func callReturns(f func()) bool {
	done := make(chan struct{})
	go func() { defer close(done); f() }()
	select {
	case <-done:
		return true
	case <-time.After(10 * time.Second):
	}
	idle := 0
	for i := 0; i < 30; i++ {
		c0 := processCPU()
		select {
		case <-done:
			return true
		case <-time.After(10 * time.Second):
		}
		// two windows of ten seconds in a row with next to no processor time: nothing of this process runs
		if processCPU()-c0 < 50*time.Millisecond {
			if idle++; idle >= 2 {
				return false
			}
		} else {
			idle = 0
		}
	}
	return false
}

// applyMut returns the corrupted file content.
func applyMut(file []byte, m c11Mut) []byte {
	n := len(file)
	switch m.Kind {
	case "timestamps":
		// every template's time of announcement is moved (a cache file kept over a long downtime, restored from a
		// backup, written by a host with a wrong clock): 32 min, 62 min, 25 h, 10 years back, to 0, to -1, an hour or
		// ten years ahead. The file is as well-formed as before; whether old templates are kept is the collector's
		// choice, but loading and decoding must work and nothing may be invented
		delta := []int64{-1920, -3720, -90000, -315360000, 0, 0, 3600, 315360000}[m.A%8]
		return tsRe.ReplaceAllFunc(file, func(b []byte) []byte {
			n, err := strconv.ParseInt(string(b[len(`"Timestamp":`):]), 10, 64)
			if err != nil {
				return b
			}
			switch {
			case m.A%8 == 4:
				n = 0
			case m.A%8 == 5:
				n = -1
			default:
				n += delta
			}
			return []byte(`"Timestamp":` + strconv.FormatInt(n, 10))
		})
	case "flip":
		if n == 0 {
			return file
		}
		out := append([]byte{}, file...)
		out[m.A%n] ^= 1 << uint(m.B%8)
		return out
	case "del":
		if n == 0 {
			return file
		}
		i := m.A % n
		j := i + 1 + m.B%64
		if j > n {
			j = n
		}
		return append(append([]byte{}, file[:i]...), file[j:]...)
	case "ins":
		i := m.A % (n + 1)
		ins := []byte{byte(m.B), byte(m.B >> 8)}
		return append(append(append([]byte{}, file[:i]...), ins...), file[i:]...)
	case "dup":
		if n == 0 {
			return file
		}
		i := m.A % n
		j := i + 1 + m.B%200
		if j > n {
			j = n
		}
		return append(append(append([]byte{}, file[:j]...), file[i:j]...), file[j:]...)
	}
	// structure level
	var doc map[string]interface{}
	if json.Unmarshal(file, &doc) != nil {
		return file
	}
	shards, _ := doc["Cache"].([]interface{})
	var raw func(string) interface{}
	raw = func(s string) interface{} {
		var v interface{}
		json.Unmarshal([]byte(s), &v)
		return v
	}
	pick := func() int {
		if len(shards) == 0 {
			return 0
		}
		return m.A % len(shards)
	}
	// prefer a shard that holds templates for entry-level mutations
	fullShard := func() (int, map[string]interface{}) {
		for k := 0; k < len(shards); k++ {
			i := (m.A + k) % len(shards)
			if sh, ok := shards[i].(map[string]interface{}); ok {
				if tm, ok := sh["Templates"].(map[string]interface{}); ok && len(tm) > 0 {
					return i, tm
				}
			}
		}
		return -1, nil
	}
	switch m.Kind {
	case "drop-shard":
		if len(shards) > 0 {
			i := pick()
			doc["Cache"] = append(append([]interface{}{}, shards[:i]...), shards[i+1:]...)
		}
	case "null-shard":
		if len(shards) > 0 {
			shards[pick()] = nil
		}
	case "null-templates":
		if len(shards) > 0 {
			if sh, ok := shards[pick()].(map[string]interface{}); ok {
				sh["Templates"] = nil
			}
		}
	case "wrong-templates":
		if len(shards) > 0 {
			if sh, ok := shards[pick()].(map[string]interface{}); ok {
				sh["Templates"] = raw(m.V)
			}
		}
	case "extra-shards":
		for i := 0; i <= m.B%5; i++ {
			shards = append(shards, map[string]interface{}{"Templates": map[string]interface{}{}})
		}
		doc["Cache"] = shards
	case "shardno":
		doc["ShardNo"] = raw(m.V)
	case "cache-wrong":
		doc["Cache"] = raw(m.V)
	case "empty-cache-array":
		doc["Cache"] = []interface{}{}
	case "remove-entry":
		if _, tm := fullShard(); tm != nil {
			for k := range tm {
				delete(tm, k)
				break
			}
		}
	case "entry-garbage":
		if _, tm := fullShard(); tm != nil {
			for k := range tm {
				tm[k] = raw(m.V)
				break
			}
		} else if len(shards) > 0 {
			if sh, ok := shards[pick()].(map[string]interface{}); ok {
				sh["Templates"] = map[string]interface{}{"12345": raw(m.V)}
			}
		}
	case "template-wrong-types":
		if _, tm := fullShard(); tm != nil {
			for k := range tm {
				tm[k] = map[string]interface{}{"Template": map[string]interface{}{"TemplateID": "x", "FieldSpecifiers": 7, "FieldCount": []interface{}{}}, "Timestamp": "now"}
				break
			}
		}
	case "count-mismatch":
		// a redundant number of a saved template no longer agrees with its specifier lists (a hand edit, one digit)
		if _, tm := fullShard(); tm != nil {
			for _, ent := range tm {
				if e, ok := ent.(map[string]interface{}); ok {
					if tpl, ok := e["Template"].(map[string]interface{}); ok {
						key := []string{"FieldCount", "ScopeFieldCount", "FieldCount"}[m.A%3]
						tpl[key] = []interface{}{0, 1, 2, 5, 255, 65535, 3}[m.B%7]
					}
				}
				break
			}
		}
	case "specifier-tweak":
		// one field specifier of a saved template is altered (length 0 / 65535 / huge, element id, enterprise number)
		if _, tm := fullShard(); tm != nil {
			for _, ent := range tm {
				if e, ok := ent.(map[string]interface{}); ok {
					if tpl, ok := e["Template"].(map[string]interface{}); ok {
						for _, listKey := range []string{"FieldSpecifiers", "ScopeFieldSpecifiers"} {
							if l, ok := tpl[listKey].([]interface{}); ok && len(l) > 0 {
								if f, ok := l[m.A%len(l)].(map[string]interface{}); ok {
									switch m.B % 4 {
									case 0:
										f["Length"] = []interface{}{0, 65535, 65534, 1}[m.A%4]
									case 1:
										f["ElementID"] = []interface{}{0, 65535, 999}[m.A%3]
									case 2:
										f["EnterpriseNo"] = 4294967295
									default:
										l = append(l, f)
										tpl[listKey] = l
									}
								}
								break
							}
						}
					}
				}
				break
			}
		}
	case "key-tweak":
		// the key of one saved entry (or of a new, empty entry) is not what the collector writes: empty, too short,
		// odd, not hexadecimal, upper case, very long, the key of an entry that belongs to another shard
		keys := []string{"", "0", "0a", "0a0", "zz", "0A0B0C0D012C", "0a0b0c0d", "0a0b0c0d01", strings.Repeat("ab", 600), " 0a0b0c0d012c", "0a0b0c0d012c\u0000", "-1", "12345", "0x0a0b0c0d012c", "ünï"}
		nk := keys[m.B%len(keys)]
		if i, tm := fullShard(); tm != nil && m.A%3 != 0 {
			for k, ent := range tm {
				delete(tm, k)
				if m.A%3 == 1 {
					tm[nk] = ent
				} else if sh, ok := shards[(i+1)%len(shards)].(map[string]interface{}); ok {
					// a well-formed key in a shard it does not hash to
					if otm, ok := sh["Templates"].(map[string]interface{}); ok {
						otm[k] = ent
					} else {
						sh["Templates"] = map[string]interface{}{k: ent}
					}
				}
				break
			}
		} else if len(shards) > 0 {
			if sh, ok := shards[pick()].(map[string]interface{}); ok {
				ent := map[string]interface{}{"Template": map[string]interface{}{"TemplateID": 300, "FieldCount": 0, "ScopeFieldCount": 0}, "Timestamp": 1}
				if otm, ok := sh["Templates"].(map[string]interface{}); ok {
					otm[nk] = ent
				} else {
					sh["Templates"] = map[string]interface{}{nk: ent}
				}
			}
		}
	case "doc-wrong":
		b, _ := json.Marshal(raw(m.V))
		return b
	case "dup-key":
		b, _ := json.Marshal(doc)
		s := strings.TrimSuffix(string(b), "}")
		return []byte(s + `,"Cache":[],"ShardNo":32}`)
	case "deep":
		return []byte(strings.Repeat("[", 2000+m.A) + strings.Repeat("]", 2000+m.A))
	}
	b, _ := json.Marshal(doc)
	return b
}

// ---------------------------------------------------------------- bulk population

type c11BulkProbe struct {
	addr []byte
	id   uint16
	data []byte
	want []wire.ExpRecord
}

// c11Populate announces a large, deterministic population of templates to the cache (exporters 100.64.x.y, ids
// 1000.., 64..100 four-octet fields each) and returns data probes for a sample of them with their expected records.
func c11Populate(cache *flowCache, proto string, class int) ([]c11BulkProbe, error) {
	nexp, ntpl, nfld := map[int][3]int{1: {12, 30, 64}, 2: {40, 30, 64}, 3: {120, 40, 100}}[class][0], map[int][3]int{1: {12, 30, 64}, 2: {40, 30, 64}, 3: {120, 40, 100}}[class][1], map[int][3]int{1: {12, 30, 64}, 2: {40, 30, 64}, 3: {120, 40, 100}}[class][2]
	if nexp == 0 {
		return nil, fmt.Errorf("bad case: bulk class")
	}
	elems := []uint16{10, 14, 16, 17, 21, 22} // unsigned32 elements at their natural size
	var probes []c11BulkProbe
	for e := 0; e < nexp; e++ {
		addr := []byte{100, 64, byte(e >> 8), byte(e)}
		for base := 0; base < ntpl; base += 10 {
			var tpls []wire.Template
			for k := base; k < base+10 && k < ntpl; k++ {
				tp := wire.Template{ID: uint16(1000 + k)}
				for f := 0; f < nfld; f++ {
					tp.Fields = append(tp.Fields, wire.Field{ID: elems[(f+k)%len(elems)], Len: 4, Type: wire.TUint32})
				}
				tpls = append(tpls, tp)
			}
			m := wire.Msg{Proto: proto, Seq: uint32(e*1000 + base), Time: 1, Domain: 1, Count: 1, Sets: []wire.Set{{Kind: "tpl", Tpls: tpls}}}
			res, perr := cache.decodeFlow(wire.ExactIP(addr), m.Bytes())
			if perr != nil {
				return nil, perr
			}
			if res.Nil || res.Err != nil {
				return nil, fmt.Errorf("harness: bulk announcement rejected: %v", res.Err)
			}
			if (e*7+base)%97 == 0 && len(probes) < 60 {
				tp := tpls[len(tpls)-1]
				rec := wire.Record{}
				for f := 0; f < nfld; f++ {
					rec.Vals = append(rec.Vals, wire.Hex{byte(e), byte(base), byte(f), 1})
				}
				dm := wire.Msg{Proto: proto, Seq: 9, Time: 2, Domain: 1, Count: 1, Sets: []wire.Set{{Kind: "data", Tpl: &tp, Recs: []wire.Record{rec}}}}
				// expected = what the cache decodes before it is saved ("exactly as before")
				before, perr := cache.decodeFlow(wire.ExactIP(addr), dm.Bytes())
				if perr != nil {
					return nil, perr
				}
				if before.Err != nil || len(before.Recs) != 1 {
					return nil, fmt.Errorf("harness: bulk probe does not decode before the save: %v", before.Err)
				}
				want := make([]wire.ExpRecord, len(before.Recs))
				for i := range before.Recs {
					want[i] = wire.ExpRecord(before.Recs[i])
				}
				probes = append(probes, c11BulkProbe{addr: addr, id: tp.ID, data: dm.Bytes(), want: want})
			}
		}
	}
	return probes, nil
}

// ---------------------------------------------------------------- execution

func c11WorkDir() string {
	d := os.Getenv("VERIF_WORK")
	if d == "" {
		d = os.TempDir()
	}
	d = filepath.Join(d, fmt.Sprintf("c11-%d", os.Getpid()))
	os.MkdirAll(d, 0o755)
	return d
}

var c11Truncations, c11Corruptions int

func runC11(c *c11Case) (v verdict, sig string, err error) {
	_, hsig, herr, cache, model := runC04x(&c.Hist)
	tol := map[int]bool{}
	for k, val := range lastC04Tolerant {
		tol[k] = val
	}
	if herr != nil {
		// a failing history is C04's business; C11 needs a cache to save
		return v, "history-" + hsig, herr
	}
	proto := c.Hist.Proto
	for _, w := range c.Weird {
		if _, perr := cache.decodeFlow([]byte{203, 0, 113, 200}, w); perr != nil {
			return v, "panic", fmt.Errorf("announcing an adversarial template: %v", perr)
		}
	}
	v.label(len(c.Weird) > 0, "adversarial-templates-in-cache")
	dir, e := os.MkdirTemp(c11WorkDir(), "case")
	if e != nil {
		return v, "", fmt.Errorf("harness: %v", e)
	}
	defer os.RemoveAll(dir)
	if c.OtherFS {
		if d := otherFSDir("verif-c11-"); d != "" {
			defer os.RemoveAll(d)
			dir = d
			v.label(true, "cache-file-on-another-file-system")
		}
	}
	file := filepath.Join(dir, "cache.json")
	var bulkProbes []c11BulkProbe
	if c.Bulk > 0 {
		var perr error
		if bulkProbes, perr = c11Populate(cache, proto, c.Bulk); perr != nil {
			return v, "panic", perr
		}
		v.label(true, fmt.Sprintf("bulk-cache-class-%d", c.Bulk))
	}
	var derr error
	func() {
		defer func() {
			if r := recover(); r != nil {
				derr = fmt.Errorf("Dump panicked: %v", r)
			}
		}()
		derr = cache.dump(file)
	}()
	if derr != nil {
		return v, "dump", fmt.Errorf("saving the cache failed: %v", derr)
	}
	saved, e := os.ReadFile(file)
	if e != nil {
		return v, "dump", fmt.Errorf("saved cache file unreadable: %v", e)
	}
	// the collector saves over whatever its previous run (or an operator) left at that path
	if c.Prefill != "" {
		var pre []byte
		switch c.Prefill {
		case "pretty":
			var buf bytes.Buffer
			if json.Indent(&buf, saved, "", "    ") == nil {
				pre = buf.Bytes()
			}
		case "tail":
			pre = append(append([]byte{}, saved...), []byte(strings.Repeat("}]\n garbage", 40))...)
		case "big":
			pre = []byte("{\"Cache\":[" + strings.Repeat("{\"Templates\":{}},", 400) + "{\"Templates\":{}}],\"ShardNo\":32, \"note\":\"" + strings.Repeat("x", 20000) + "\"}")
		case "older":
			pre = append(append([]byte{}, saved[:len(saved)-1]...), []byte(",\"Older\":\""+strings.Repeat("o", 3000)+"\"}")...)
		}
		if len(pre) > 0 {
			os.WriteFile(file, pre, 0o644)
			if derr := cache.dump(file); derr != nil {
				return v, "dump", fmt.Errorf("saving the cache over an existing file failed: %v", derr)
			}
			again, e := os.ReadFile(file)
			if e != nil {
				return v, "dump", fmt.Errorf("saved cache file unreadable: %v", e)
			}
			// the usual outcome is the very same octets; a file that differs is judged by what it holds (the round trip
			// below loads this file): how a cache is laid out in its file is the collector's business
			if !sameCacheFile(again, saved) {
				v.label(true, "save-over-existing-file-differs-from-a-fresh-save")
				if bytes.HasPrefix(again, saved) || bytes.HasSuffix(again, pre[len(pre)/2:]) {
					return v, "overwrite", fmt.Errorf("saving the same cache over an existing %d-octet file (%s) leaves %d octets, a save to a fresh path %d: the previous content is not fully replaced",
						len(pre), c.Prefill, len(again), len(saved))
				}
			}
		}
		v.label(true, "save-over-existing-file")
	}
	probes := savedProbes(&c.Hist, model)
	// ids named by a field-less template record and not re-announced since: what they decode to is the collector's
	// choice (gone, or a template without fields); the round trip must preserve that choice, whatever it is
	var tolProbes []savedProbe
	{
		var strict []savedProbe
		for _, pr := range probes {
			isTol := false
			for i := range c.Hist.Slots {
				if tol[i] && string(c.Hist.Slots[i].Addr) == string(pr.slot.Addr) && c.Hist.Slots[i].ID == pr.slot.ID {
					isTol = true
				}
			}
			if isTol {
				tolProbes = append(tolProbes, pr)
			} else {
				strict = append(strict, pr)
			}
		}
		probes = strict
	}
	v.label(len(tolProbes) > 0, "ids-named-by-field-less-records")
	v.label(true, "proto-"+proto)
	v.label(len(probes) == 0, "empty-cache")
	v.label(len(probes) >= 3, ">=3-saved-templates")

	// (a) round trip
	loaded, perr := safeLoad(proto, file)
	if perr != nil {
		return v, "panic", perr
	}
	if e := checkNothingInvented(loaded, probes, true); e != nil {
		return v, "roundtrip", fmt.Errorf("round trip: %v", e)
	}
	for _, pr := range tolProbes {
		r1, p1 := cache.decodeFlow(wire.ExactIP(pr.slot.Addr), pr.msg.Bytes())
		r2, p2 := loaded.decodeFlow(wire.ExactIP(pr.slot.Addr), pr.msg.Bytes())
		if p1 != nil || p2 != nil {
			return v, "panic", fmt.Errorf("%v %v", p1, p2)
		}
		want := make([]wire.ExpRecord, len(r1.Recs))
		for i := range r1.Recs {
			want[i] = wire.ExpRecord(r1.Recs[i])
		}
		if (r1.Err == nil) != (r2.Err == nil) || wire.CompareRecords(r2.Recs, want) != "" {
			return v, "roundtrip", fmt.Errorf("round trip: exporter %x id %d (named by a field-less template record before the save) decodes differently after load: before %d records err=%v, after %d records err=%v",
				[]byte(pr.slot.Addr), pr.slot.ID, len(r1.Recs), r1.Err, len(r2.Recs), r2.Err)
		}
	}
	for _, bp := range bulkProbes {
		r2, p2 := loaded.decodeFlow(wire.ExactIP(bp.addr), bp.data)
		if p2 != nil {
			return v, "panic", p2
		}
		if r2.Err != nil || wire.CompareRecords(r2.Recs, bp.want) != "" {
			return v, "roundtrip", fmt.Errorf("round trip of a large cache (%d octets of file): template %d of bulk exporter %v decodes differently after load: err=%v %s", len(saved), bp.id, net.IP(bp.addr), r2.Err, wire.CompareRecords(r2.Recs, bp.want))
		}
	}
	if c.Bulk > 0 {
		v.NT = true
		return v, "", nil
	}
	for i := range c.Hist.Slots {
		if model[i] != nil {
			continue
		}
		sl := c.Hist.Slots[i]
		m := wire.Msg{Proto: proto, Seq: 3, Sets: []wire.Set{{Kind: "raw", RawID: sl.ID, RawBody: []byte{1, 2, 3, 4, 5, 6, 7, 8}}}}
		r1, p1 := cache.decodeFlow(wire.ExactIP(sl.Addr), m.Bytes())
		r2, p2 := loaded.decodeFlow(wire.ExactIP(sl.Addr), m.Bytes())
		if p1 != nil || p2 != nil {
			return v, "panic", fmt.Errorf("%v %v", p1, p2)
		}
		if len(r2.Recs) != 0 || (r1.Err == nil) != (r2.Err == nil) || (r1.Err != nil && r1.Err.Error() != r2.Err.Error()) {
			return v, "roundtrip", fmt.Errorf("round trip: unannounced exporter %x id %d decodes differently after load: before err=%v, after err=%v recs=%d", []byte(sl.Addr), sl.ID, r1.Err, r2.Err, len(r2.Recs))
		}
	}
	// saving the loaded cache again must reproduce the file: nothing dropped, nothing altered by the round trip
	resave := filepath.Join(dir, "resave.json")
	if derr := loaded.dump(resave); derr != nil {
		return v, "dump", fmt.Errorf("saving the loaded cache failed: %v", derr)
	}
	if again, e := os.ReadFile(resave); e != nil {
		return v, "roundtrip", fmt.Errorf("round trip: the file saved by the loaded cache is unreadable: %v", e)
	} else if !sameCacheFile(again, saved) {
		// not the same document(s): judged by what the second file holds
		v.label(true, "resave-differs-from-the-file")
		reloaded, perr := safeLoad(proto, resave)
		if perr != nil {
			return v, "panic", perr
		}
		if e := checkNothingInvented(reloaded, probes, true); e != nil {
			return v, "roundtrip", fmt.Errorf("round trip: a cache loaded from its file and saved again differs from the file (%d vs %d octets) and templates were dropped or altered: %v", len(again), len(saved), e)
		}
	}
	if e := usable(loaded); e != nil {
		return v, "unusable", fmt.Errorf("round trip: %v", e)
	}

	// (a') a second save after one more announcement
	if c.Later != nil && len(probes) > 0 {
		l := c.Later
		target, tname := loaded, "the cache loaded from the file"
		if l.Via == "same" {
			target, tname = cache, "the cache that wrote the file"
		} else if l.Via != "loaded" {
			return v, "", fmt.Errorf("bad case: later.via")
		}
		// the usability probes above announced templates of their own to the loaded cache: a second save holds them too
		pi := l.Slot % len(probes)
		if l.Kind == "scope" {
			for k := 0; k < len(probes); k++ {
				if len(probes[(pi+k)%len(probes)].tpl.Scope) > 0 {
					pi = (pi + k) % len(probes)
					break
				}
			}
		}
		changed := false
		var ntp wire.Template
		if l.Kind != "none" {
			ntp, changed = tweakTemplate(probes[pi].tpl, l, proto)
		}
		later := append([]savedProbe{}, probes...)
		if changed {
			kind := "tpl"
			if ntp.Options {
				kind = "opt"
			}
			am := wire.Msg{Proto: proto, Seq: 11, Sets: []wire.Set{{Kind: kind, Tpls: []wire.Template{ntp}}}}
			res, perr := target.decodeFlow(wire.ExactIP(probes[pi].slot.Addr), am.Bytes())
			if perr != nil {
				return v, "panic", perr
			}
			if res.Nil || res.Err != nil {
				return v, "later", fmt.Errorf("second save: re-announcing template %d of exporter %x with a changed definition is rejected: %v", ntp.ID, []byte(probes[pi].slot.Addr), res.Err)
			}
			fake := c04Case{Proto: proto, Slots: []c04Slot{probes[pi].slot}}
			np := savedProbes(&fake, map[int]*wire.Template{0: &ntp})
			later[pi] = np[0]
			v.label(true, "second-save-after-a-"+l.Kind+"-redefinition")
			v.label(len(probes[pi].tpl.Scope) > 0 && l.Kind == "scope", "second-save-after-a-scope-only-change")
		}
		v.label(true, "second-save-via-"+l.Via)
		if derr := target.dump(file); derr != nil {
			return v, "dump", fmt.Errorf("second save failed: %v", derr)
		}
		second, perr := safeLoad(proto, file)
		if perr != nil {
			return v, "panic", perr
		}
		if e := checkNothingInvented(second, later, true); e != nil {
			return v, "second-save", fmt.Errorf("second save (%s, after one template was announced again with a changed definition: %v): what the file gives back: %v", tname, changed, e)
		}
		// put the first save back for the crash-point and corruption parts
		os.WriteFile(file, saved, 0o644)
	}

	// (b) crash points: prefixes of the saved file
	offsets := prefixOffsets(saved, c.PrefixSeed)
	scratch := filepath.Join(dir, "cut.json")
	cutInsideTemplate := false
	for _, k := range offsets {
		os.WriteFile(scratch, saved[:k], 0o644)
		lc, perr := safeLoad(proto, scratch)
		c11Truncations++
		if perr != nil {
			return v, "panic", fmt.Errorf("file cut at octet %d of %d: %v", k, len(saved), perr)
		}
		// usability is probed on a sample of the prefixes (every 16th and the extremes) — every prefix is loaded
		if k%16 == 0 || k == len(saved) || k == len(saved)-1 {
			if e := usable(lc); e != nil {
				return v, "unusable", fmt.Errorf("file cut at octet %d of %d: %v", k, len(saved), e)
			}
		}
		if e := checkNothingInvented(lc, probes, false); e != nil {
			return v, "invented", fmt.Errorf("file cut at octet %d of %d: %v", k, len(saved), e)
		}
		if k > 0 && k < len(saved) && strings.Contains(string(saved[max(0, k-40):k]), "FieldSpecifiers") {
			cutInsideTemplate = true
		}
	}
	v.label(cutInsideTemplate, "prefix-cuts-inside-template")

	// (c) corruptions
	shapeChanged := false
	for _, m := range c.Muts {
		content := applyMut(saved, m)
		os.WriteFile(scratch, content, 0o644)
		lc, perr := safeLoad(proto, scratch)
		c11Corruptions++
		if perr != nil {
			return v, "panic", fmt.Errorf("corruption %s: %v", m.Kind, perr)
		}
		// whatever the loader made of the file, data for the exporters it knew must still be handled (decoded,
		// reported or dropped) without taking the worker down — and every call must come back
		var uerr, derr error
		if !callReturns(func() {
			for _, pr := range probes {
				res, perr := lc.decodeFlow(wire.ExactIP(pr.slot.Addr), pr.msg.Bytes())
				if perr == nil && !res.Nil && len(res.Recs) > 0 {
					_, _, perr = res.marshal()
				}
				if perr != nil && derr == nil {
					derr = fmt.Errorf("corruption %s(%d,%d,%s): decoding data of exporter %x id %d against the loaded cache: %v", m.Kind, m.A, m.B, m.V, []byte(pr.slot.Addr), pr.slot.ID, perr)
				}
			}
			uerr = usable(lc)
		}) {
			return v, "blocked", fmt.Errorf("corruption %s(%d,%d,%s): decoding against the cache loaded from the file does not return (the process sits blocked)", m.Kind, m.A, m.B, m.V)
		}
		if derr != nil {
			return v, "panic", derr
		}
		if uerr != nil {
			return v, "unusable", fmt.Errorf("corruption %s(%d,%d,%s): %v", m.Kind, m.A, m.B, m.V, uerr)
		}
		if removalOnly[m.Kind] {
			if e := checkNothingInvented(lc, probes, false); e != nil {
				return v, "invented", fmt.Errorf("corruption %s: %v", m.Kind, e)
			}
		}
		v.label(true, "mut-"+m.Kind)
		if json.Valid(content) && string(content) != string(saved) {
			shapeChanged = true
		}
	}
	v.label(shapeChanged, "parses-with-different-shape")
	// absent / empty / directory paths
	for _, p := range []string{filepath.Join(dir, "does-not-exist"), dir, ""} {
		lc, perr := safeLoad(proto, p)
		if perr != nil {
			return v, "panic", fmt.Errorf("path %q: %v", p, perr)
		}
		if e := usable(lc); e != nil {
			return v, "unusable", fmt.Errorf("path %q: %v", p, e)
		}
	}
	os.WriteFile(scratch, nil, 0o644)
	if lc, perr := safeLoad(proto, scratch); perr != nil {
		return v, "panic", fmt.Errorf("empty file: %v", perr)
	} else if e := usable(lc); e != nil {
		return v, "unusable", fmt.Errorf("empty file: %v", e)
	}
	v.NT = shapeChanged || cutInsideTemplate
	return v, "", nil
}

func prefixOffsets(saved []byte, seed int) []int {
	n := len(saved)
	if n <= 6144 {
		out := make([]int, 0, n+1)
		for k := 0; k <= n; k++ {
			out = append(out, k)
		}
		return out
	}
	set := map[int]bool{}
	for k := 0; k <= 1536; k++ {
		set[k] = true
		set[n-k] = true
	}
	s := string(saved)
	for i := 0; ; {
		j := strings.Index(s[i:], `{"Templates"`)
		if j < 0 {
			break
		}
		p := i + j
		for k := p - 32; k <= p+32; k++ {
			if k >= 0 && k <= n {
				set[k] = true
			}
		}
		i = p + 1
	}
	x := uint64(seed)*2654435761 + 12345
	for i := 0; i < 600; i++ {
		x ^= x << 13
		x ^= x >> 7
		x ^= x << 17
		set[int(x%uint64(n+1))] = true
	}
	out := make([]int, 0, len(set))
	for k := range set {
		out = append(out, k)
	}
	// deterministic order
	for i := 1; i < len(out); i++ {
		for j := i; j > 0 && out[j] < out[j-1]; j-- {
			out[j], out[j-1] = out[j-1], out[j]
		}
	}
	return out
}

func TestC11(t *testing.T) {
	installEnterprise()
	col := getCollector("C11", c11Rule)
	defer os.RemoveAll(c11WorkDir())
	runRegress(t, "C11")
	envs := map[string]*wire.GenEnv{"ipfix": wire.NewGenEnv("ipfix"), "nf9": wire.NewGenEnv("nf9")}
	rapid.Check(t, func(t *rapid.T) {
		proto := rapid.SampledFrom([]string{"ipfix", "nf9"}).Draw(t, "proto")
		c := c11Case{Hist: genC04(t, proto, envs[proto], "withdraw"), PrefixSeed: rapid.IntRange(0, 1<<20).Draw(t, "prefixseed")}
		c.Prefill = rapid.SampledFrom([]string{"", "", "pretty", "tail", "big", "older"}).Draw(t, "prefill")
		c.OtherFS = rapid.IntRange(0, 3).Draw(t, "otherfs") == 0
		c.Bulk = rapid.SampledFrom(append(make([]int, 90), 1, 1, 1, 2, 2, 3, 3)).Draw(t, "bulk")
		if rapid.Bool().Draw(t, "weird") {
			nw := rapid.IntRange(1, 3).Draw(t, "nweird")
			for i := 0; i < nw; i++ {
				var m wire.Msg
				envs[proto].GenHeader(t, &m)
				m.Sets = []wire.Set{envs[proto].WeirdTemplateSet(t, nil)}
				c.Weird = append(c.Weird, m.Bytes())
			}
		}
		c.Muts = genC11Muts(t)
		if rapid.Bool().Draw(t, "withlater") {
			c.Later = &c11Later{Via: rapid.SampledFrom([]string{"loaded", "same"}).Draw(t, "latervia"), Kind: rapid.SampledFrom([]string{"scope", "scope", "field", "swap", "fresh", "none"}).Draw(t, "laterkind"),
				Slot: rapid.IntRange(0, 63).Draw(t, "laterslot"), A: rapid.IntRange(0, 1023).Draw(t, "latera")}
		}
		v, sig, err := runC11(&c)
		col.report(t, mustJSON(c), v, sig, err)
	})
	col.addExtra("file_prefixes_loaded", c11Truncations)
	col.addExtra("corrupted_files_loaded", c11Corruptions)
	os.RemoveAll(c11WorkDir())
}

func init() {
	registerReplay("C11", func(raw json.RawMessage) error {
		installEnterprise()
		var c c11Case
		if err := json.Unmarshal(raw, &c); err != nil {
			return err
		}
		_, _, err := runC11(&c)
		return err
	})
}
