package props

// Native (coverage-guided) fuzz targets, thorough tier only. Input encoding for the datagram-sequence
// targets: repeated [1 octet exporter selector][2 octets big-endian length][datagram octets].
// Global state: the template cache is created at the top of every iteration.

import (
	"bytes"
	"encoding/binary"
	"encoding/hex"
	"encoding/json"
	"os"
	"path/filepath"
	"testing"

	netflow5 "github.com/EdgeCast/vflow/netflow/v5"
	"github.com/EdgeCast/vflow/reader"
	"pgregory.net/rapid"
	"verif/harness/wire"
)

var fuzzExporters = [][]byte{{127, 0, 0, 1}, {0, 0, 0, 0, 0, 0, 0, 0, 0, 0, 0xff, 0xff, 10, 1, 2, 3}, {0x20, 1, 0xd, 0xb8, 0, 0, 0, 0, 0, 0, 0, 0, 0, 0, 0, 1}}

func splitSeq(data []byte) (items [][]byte, exps []int) {
	for len(data) >= 3 && len(items) < 16 {
		e := int(data[0]) % len(fuzzExporters)
		n := int(binary.BigEndian.Uint16(data[1:3]))
		data = data[3:]
		if n > len(data) {
			n = len(data)
		}
		items = append(items, data[:n])
		exps = append(exps, e)
		data = data[n:]
	}
	return
}

func joinSeq(items [][]byte) []byte {
	var out []byte
	for i, it := range items {
		out = append(out, byte(i%len(fuzzExporters)), byte(len(it)>>8), byte(len(it)))
		out = append(out, it...)
	}
	return out
}

// seedSequences builds seed inputs: generator outputs (fixed examples), the repository's regression
// histories and the hostile constants kept under testdata/regress.
func seedSequences(f *testing.F, proto string) {
	installEnterprise()
	if proto == "ipfix" || proto == "nf9" {
		env := wire.NewGenEnv(proto)
		g := rapid.Custom(func(t *rapid.T) wire.Scenario { return env.GenScenario(t, 3, 4) })
		for s := 1; s <= 12; s++ {
			sc := g.Example(s)
			var items [][]byte
			for i := range sc.Pre {
				items = append(items, sc.Pre[i].Bytes())
			}
			items = append(items, sc.Main.Bytes())
			f.Add(joinSeq(items))
		}
	}
	if proto == "sflow" {
		g := rapid.Custom(wire.GenSFDatagram)
		for s := 1; s <= 12; s++ {
			d := g.Example(s)
			f.Add(joinSeq([][]byte{d.Bytes()}))
		}
	}
	if proto == "nf5" {
		g := rapid.Custom(wire.GenNF5)
		for s := 1; s <= 6; s++ {
			p := g.Example(s)
			f.Add(joinSeq([][]byte{p.Bytes()}))
		}
	}
	for _, prop := range []string{"C01", "C02"} {
		files, _ := filepath.Glob(filepath.Join("testdata", "regress", prop, "*.json"))
		for _, fn := range files {
			b, err := os.ReadFile(fn)
			if err != nil {
				continue
			}
			var rf replayFile
			var c rbCase
			if json.Unmarshal(b, &rf) != nil || json.Unmarshal(rf.Case, &c) != nil || c.Proto != proto {
				continue
			}
			var items [][]byte
			for _, it := range c.Items {
				items = append(items, it.Data)
			}
			f.Add(joinSeq(items))
		}
	}
	f.Add([]byte{})
}

func fuzzSeq(f *testing.F, proto string, bounds bool) {
	seedSequences(f, proto)
	f.Fuzz(func(t *testing.T, data []byte) {
		items, exps := splitSeq(data)
		var cache *flowCache
		if proto == "ipfix" || proto == "nf9" {
			cache = newFlowCache(proto)
		}
		var st rbStats
		for i, it := range items {
			if _, err := processOne(proto, cache, fuzzExporters[exps[i]], it, bounds, &st); err != nil {
				t.Fatalf("datagram %d (%s): %v", i, hex.EncodeToString(it), err)
			}
		}
	})
}

func FuzzC01IPFIX(f *testing.F) { fuzzSeq(f, "ipfix", false) }
func FuzzC01NF9(f *testing.F)   { fuzzSeq(f, "nf9", false) }
func FuzzC01SFlow(f *testing.F) { fuzzSeq(f, "sflow", false) }
func FuzzC01NF5(f *testing.F)   { fuzzSeq(f, "nf5", false) }

// FuzzC02: first octet selects the protocol; same sequence encoding; bounds oracle in the target
// (the Go fuzzer itself reports an iteration that hangs).
func FuzzC02(f *testing.F) {
	installEnterprise()
	for i, proto := range robustProtos {
		files, _ := filepath.Glob(filepath.Join("testdata", "regress", "C02", "*.json"))
		for _, fn := range files {
			b, _ := os.ReadFile(fn)
			var rf replayFile
			var c rbCase
			if json.Unmarshal(b, &rf) != nil || json.Unmarshal(rf.Case, &c) != nil || c.Proto != proto {
				continue
			}
			var items [][]byte
			for _, it := range c.Items {
				items = append(items, it.Data)
			}
			f.Add(append([]byte{byte(i)}, joinSeq(items)...))
		}
	}
	for i, proto := range robustProtos {
		if proto == "ipfix" || proto == "nf9" {
			env := wire.NewGenEnv(proto)
			g := rapid.Custom(func(t *rapid.T) wire.Scenario { return env.GenScenario(t, 3, 4) })
			for s := 1; s <= 6; s++ {
				sc := g.Example(s)
				var items [][]byte
				for k := range sc.Pre {
					items = append(items, sc.Pre[k].Bytes())
				}
				items = append(items, sc.Main.Bytes())
				f.Add(append([]byte{byte(i)}, joinSeq(items)...))
			}
		}
	}
	f.Fuzz(func(t *testing.T, data []byte) {
		if len(data) < 1 {
			return
		}
		proto := robustProtos[int(data[0])%len(robustProtos)]
		items, exps := splitSeq(data[1:])
		var cache *flowCache
		if proto == "ipfix" || proto == "nf9" {
			cache = newFlowCache(proto)
		}
		var st rbStats
		for i, it := range items {
			if len(it) > 1500 {
				it = it[:1500]
			}
			if _, err := processOne(proto, cache, fuzzExporters[exps[i]], it, true, &st); err != nil {
				t.Fatalf("%s datagram %d (%s): %v", proto, i, hex.EncodeToString(it), err)
			}
		}
	})
}

// FuzzC19: first octets select buffer split, the rest are (op, n) pairs run against the model of c19_test.go.
func FuzzC19(f *testing.F) {
	f.Add([]byte{8, 1, 2, 3, 4, 5, 6, 7, 8, 0, 0, 4, 3, 5, 2, 6, 0})
	f.Add([]byte{0})
	f.Add([]byte{3, 0xff, 0xfe, 0xfd, 3, 0, 4, 9, 5, 1})
	names := []string{"u8", "u16", "u32", "u64", "read", "peek", "peek16", "len", "count"}
	f.Fuzz(func(t *testing.T, data []byte) {
		if len(data) < 1 {
			return
		}
		n := int(data[0]) % 65
		data = data[1:]
		if n > len(data) {
			n = len(data)
		}
		c := c19Case{Buf: hex.EncodeToString(data[:n]), Pre: 3, Post: 5}
		data = data[n:]
		for i := 0; i+1 < len(data) && len(c.Ops) < 64; i += 2 {
			c.Ops = append(c.Ops, c19Op{Op: names[int(data[i])%len(names)], N: int(data[i+1]) % (n + 9)})
		}
		if _, _, err := runC19(c); err != nil {
			t.Fatalf("%v", err)
		}
	})
}

var _ = bytes.Equal
var _ = netflow5.NewDecoder
var _ = reader.NewReader
