package props

// C05 — every published message is valid JSON that faithfully carries the decode.
// The payload is produced exactly as the worker produces it (JSONMarshal into a buffer /
// json.Marshal of the sFlow datagram) and parsed back with encoding/json (UseNumber).

import (
	"encoding/hex"
	"encoding/json"
	"fmt"
	"math"
	"strconv"
	"strings"
	"testing"
	"unicode/utf8"

	"pgregory.net/rapid"
	"verif/harness/wire"
)

const c05Rule = "case = protocol (ipfix | nf9 | nf5 | sflow) + a decodable message from the structured generators with hostile values in every abstract type " +
	"(strings with quotes, backslashes, control bytes, % verbs, invalid UTF-8; NaN/Inf/-0/subnormal floats; booleans; 64-bit extremes; IPv4/IPv4-mapped/IPv6 exporters; " +
	"reduced-size fields and fields declared longer than their type, e.g. a 5- or 20-octet address: decodable, hence published); " +
	"oracle = the payload is one valid JSON document whose AgentID, header fields and per-record (I, E iff non-zero, V) equal the decoded message: integers digit-exact, " +
	"finite floats re-parse to the same bit pattern, booleans are JSON booleans, text equal after JSON unescaping, addresses canonical, octets 0x-hex; " +
	"non-trivial = message holds a string needing escape, a float, a boolean, a 64-bit extreme, or >= 2 data sets; distinct by hash of the case"

type c05Case struct {
	Proto string           `json:"proto"`
	Flow  *wire.Scenario   `json:"flow,omitempty"`
	NF5   *c08Case         `json:"nf5,omitempty"`
	SFlow *wire.SFDatagram `json:"sflow,omitempty"`
}

func stripInvalid(s string) string {
	var sb strings.Builder
	for i := 0; i < len(s); {
		r, n := utf8.DecodeRuneInString(s[i:])
		if (r == utf8.RuneError && n == 1) || r == utf8.RuneError {
			i += n
			continue
		}
		sb.WriteString(s[i : i+n])
		i += n
	}
	return sb.String()
}

// checkJSONValue compares one "V" with the decoded canonical value.
func checkJSONValue(got interface{}, want wire.Canon) string {
	switch want.K {
	case "uint":
		n, ok := got.(json.Number)
		if !ok || n.String() != strconv.FormatUint(want.U, 10) {
			return fmt.Sprintf("V = %v (%T), decoded unsigned %d", got, got, want.U)
		}
	case "int":
		n, ok := got.(json.Number)
		if !ok || n.String() != strconv.FormatInt(want.I, 10) {
			return fmt.Sprintf("V = %v (%T), decoded signed %d", got, got, want.I)
		}
	case "f32":
		f := math.Float32frombits(uint32(want.U))
		if math.IsNaN(float64(f)) || math.IsInf(float64(f), 0) {
			return "" // JSON cannot express it: any valid JSON value is accepted
		}
		n, ok := got.(json.Number)
		if !ok {
			return fmt.Sprintf("V = %v (%T), decoded float32 %v", got, got, f)
		}
		p, err := strconv.ParseFloat(n.String(), 32)
		if err != nil || math.Float32bits(float32(p)) != uint32(want.U) {
			return fmt.Sprintf("V = %s re-parses to bits %#x, decoded float32 bits %#x", n, math.Float32bits(float32(p)), want.U)
		}
	case "f64":
		f := math.Float64frombits(want.U)
		if math.IsNaN(f) || math.IsInf(f, 0) {
			return ""
		}
		n, ok := got.(json.Number)
		if !ok {
			return fmt.Sprintf("V = %v (%T), decoded float64 %v", got, got, f)
		}
		p, err := strconv.ParseFloat(n.String(), 64)
		if err != nil || math.Float64bits(p) != want.U {
			return fmt.Sprintf("V = %s re-parses to bits %#x, decoded float64 bits %#x", n, math.Float64bits(p), want.U)
		}
	case "bool":
		b, ok := got.(bool)
		if !ok || b != (want.U == 1) {
			return fmt.Sprintf("V = %v (%T), decoded boolean %v", got, got, want.U == 1)
		}
	case "text":
		s, ok := got.(string)
		if !ok {
			return fmt.Sprintf("V = %v (%T), decoded text %q", got, got, want.S)
		}
		if utf8.ValidString(want.S) && !strings.ContainsRune(want.S, utf8.RuneError) {
			if s != want.S {
				return fmt.Sprintf("V = %q, decoded text %q", s, want.S)
			}
		} else if stripInvalid(s) != stripInvalid(want.S) {
			// invalid UTF-8 cannot be carried exactly; its valid parts must survive in order
			return fmt.Sprintf("V = %q does not carry the valid parts of decoded text %q", s, want.S)
		}
	case "ip":
		s, ok := got.(string)
		if ok && len(want.O) != 4 && len(want.O) != 16 {
			return "" // not an address length (template declares the element longer than its type): any text
		}
		if !ok || !ipTextOK(s, want.O) {
			return fmt.Sprintf("V = %v, not the canonical text of address %x", got, []byte(want.O))
		}
	case "mac":
		s, ok := got.(string)
		if !ok || s != macText(want.O) {
			return fmt.Sprintf("V = %v, decoded MAC %s", got, macText(want.O))
		}
	case "octets":
		s, ok := got.(string)
		if !ok || s != "0x"+hex.EncodeToString(want.O) {
			return fmt.Sprintf("V = %v, decoded octets 0x%x", got, []byte(want.O))
		}
	default:
		return "unexpected canonical kind " + want.K
	}
	return ""
}

// checkFlowJSON checks an IPFIX / NetFlow v9 payload against the decoded message.
func checkFlowJSON(js []byte, exporter []byte, res *flowResult) string {
	doc, d := parseSingleJSON(js)
	if d != "" {
		return d
	}
	if d := checkAgentID(doc["AgentID"], exporter); d != "" {
		return d
	}
	hdr, ok := doc["Header"].(map[string]interface{})
	if !ok {
		return "JSON lacks Header object"
	}
	for k, w := range res.Header {
		if g, ok := jsonNumber(hdr[k]); !ok || g != w {
			return fmt.Sprintf("JSON Header.%s = %v, decoded %d", k, hdr[k], w)
		}
	}
	ds, ok := doc["DataSets"].([]interface{})
	if !ok && len(res.Recs) > 0 {
		return "JSON lacks DataSets array"
	}
	if len(ds) != len(res.Recs) {
		return fmt.Sprintf("JSON DataSets has %d records, decoded %d", len(ds), len(res.Recs))
	}
	for i, rec := range res.Recs {
		jr, ok := ds[i].([]interface{})
		if !ok || len(jr) != len(rec) {
			return fmt.Sprintf("JSON record %d has %d fields, decoded %d", i, len(jr), len(rec))
		}
		for j, f := range rec {
			jf, ok := jr[j].(map[string]interface{})
			if !ok {
				return fmt.Sprintf("JSON record %d field %d is not an object", i, j)
			}
			if id, ok := jsonNumber(jf["I"]); !ok || id != uint64(f.ID) {
				return fmt.Sprintf("JSON record %d field %d: I = %v, decoded id %d", i, j, jf["I"], f.ID)
			}
			e, has := jf["E"]
			if f.PEN != 0 {
				if en, ok := jsonNumber(e); !has || !ok || en != uint64(f.PEN) {
					return fmt.Sprintf("JSON record %d field %d: E = %v, decoded enterprise number %d", i, j, e, f.PEN)
				}
			} else if has {
				if en, ok := jsonNumber(e); !ok || en != 0 {
					return fmt.Sprintf("JSON record %d field %d: E = %v for an IANA element", i, j, e)
				}
			}
			v, has := jf["V"]
			if !has {
				return fmt.Sprintf("JSON record %d field %d has no V", i, j)
			}
			if d := checkJSONValue(v, f.Val); d != "" {
				return fmt.Sprintf("JSON record %d field %d (id %d): %s", i, j, f.ID, d)
			}
		}
	}
	return ""
}

func runC05Flow(sc *wire.Scenario) (v verdict, sig string, err error) {
	v = scenarioVerdict(sc)
	cache, addr, e := prepareScenario(sc)
	if e != nil {
		return v, "announce", e
	}
	b := sc.Main.Bytes()
	if len(b) > 65507 {
		return v, "", nil
	}
	res, perr := cache.decodeFlow(addr, b)
	if perr != nil {
		return v, "panic", perr
	}
	if res.Nil || len(res.Recs) == 0 {
		v.NT = false
		v.label(true, "nothing-to-publish")
		return v, "", nil // nothing is published (decode correctness is C03/C06's business)
	}
	// non-triviality by content
	nt := false
	sets := 0
	for i := range sc.Main.Sets {
		if sc.Main.Sets[i].Kind == "data" {
			sets++
		}
	}
	for _, rec := range res.Recs {
		for _, f := range rec {
			switch f.Val.K {
			case "text":
				if strings.ContainsAny(f.Val.S, "\"\\") || !utf8.ValidString(f.Val.S) || strings.IndexFunc(f.Val.S, func(r rune) bool { return r < 0x20 }) >= 0 {
					nt = true
					v.label(true, "string-needing-escape")
					v.label(!utf8.ValidString(f.Val.S), "string-invalid-utf8")
				}
			case "f32", "f64":
				nt = true
				fl := math.Float64frombits(f.Val.U)
				if f.Val.K == "f32" {
					fl = float64(math.Float32frombits(uint32(f.Val.U)))
				}
				v.label(math.IsNaN(fl) || math.IsInf(fl, 0), "float-nan-inf")
			case "bool":
				nt = true
			case "uint":
				if f.Val.U == math.MaxUint64 {
					nt = true
					v.label(true, "uint64-max")
				}
			case "int":
				if f.Val.I == math.MinInt64 || f.Val.I == math.MaxInt64 {
					nt = true
					v.label(true, "int64-extreme")
				}
			}
		}
	}
	v.NT = nt || sets >= 2
	js, merr, mperr := res.marshal()
	if mperr != nil {
		return v, "panic", mperr
	}
	if merr != nil {
		// the worker drops the message on an encode error: a decoded message is lost
		return v, "encode-error", fmt.Errorf("JSONMarshal of a decoded message failed (the worker drops it): %v", merr)
	}
	if d := checkFlowJSON(js, sc.Exporter, &res); d != "" {
		return v, "json", fmt.Errorf("%s", d)
	}
	return v, "", nil
}

func runC05(c *c05Case) (verdict, string, error) {
	switch c.Proto {
	case "ipfix", "nf9":
		v, sig, err := runC05Flow(c.Flow)
		v.label(true, "proto-"+c.Proto)
		return v, sig, err
	case "nf5":
		v, sig, err := runC08(c.NF5)
		v.label(true, "proto-nf5")
		return v, sig, err
	case "sflow":
		v, sig, err := runC05SFlow(c.SFlow)
		v.label(true, "proto-sflow")
		return v, sig, err
	}
	return verdict{}, "", fmt.Errorf("bad case: proto %q", c.Proto)
}

func TestC05(t *testing.T) {
	installEnterprise()
	col := getCollector("C05", c05Rule)
	runRegress(t, "C05")
	envs := map[string]*wire.GenEnv{"ipfix": wire.NewGenEnv("ipfix"), "nf9": wire.NewGenEnv("nf9")}
	// the oracle compares the JSON with what the decoder returned, so templates may also declare fixed-size
	// elements longer than their type (decodable, hence published, though outside RFC 7011)
	envs["ipfix"].OffSpecLengths, envs["nf9"].OffSpecLengths = true, true
	envs["ipfix"].Big, envs["nf9"].Big = true, true
	rapid.Check(t, func(t *rapid.T) {
		c := c05Case{Proto: rapid.SampledFrom([]string{"ipfix", "ipfix", "nf9", "nf9", "nf5", "sflow"}).Draw(t, "proto")}
		switch c.Proto {
		case "ipfix", "nf9":
			sc := envs[c.Proto].GenScenario(t, 3, 8)
			c.Flow = &sc
		case "nf5":
			p := c08Case{Exporter: wire.GenExporter(t), Pkt: wire.GenNF5(t)}
			// C05 is about decodable messages
			p.Pkt.Version = 5
			if p.Pkt.Count < 1 || p.Pkt.Count > 30 {
				p.Pkt.Count = uint16(len(p.Pkt.Recs))
			}
			c.NF5 = &p
		case "sflow":
			d := wire.GenSFDatagram(t)
			c.SFlow = &d
		}
		v, sig, err := runC05(&c)
		if err == nil && v.NT && rapid.IntRange(0, 7).Draw(t, "twins") == 0 {
			if e := concurrently(6, func() error { _, _, e := runC05(&c); return e }); e != nil {
				sig, err = "concurrent", fmt.Errorf("decoded and encoded by 6 goroutines at once: %v", e)
			}
			v.label(true, "concurrent-twins")
		}
		col.report(t, mustJSON(c), v, sig, err)
	})
}

func init() {
	registerReplay("C05", func(raw json.RawMessage) error {
		installEnterprise()
		var c c05Case
		if err := json.Unmarshal(raw, &c); err != nil {
			return err
		}
		_, _, err := runC05(&c)
		return err
	})
}
