package props

// C14 — the producer delivers every message once, unmodified and in order (raw socket backend),
// and resumes after the sink connection breaks.

import (
	"bytes"
	"context"
	"encoding/json"
	"fmt"
	"io"
	"log"
	"net"
	"os"
	"path/filepath"
	"regexp"
	"strings"
	"sync"
	"sync/atomic"
	"syscall"
	"testing"
	"time"

	"github.com/EdgeCast/vflow/producer"
	"pgregory.net/rapid"
	"verif/harness/wire"
)

type c14Break struct {
	After   int    `json:"after"`    // break once this many complete messages have been received in total
	Kind    string `json:"kind"`     // close | rst | stall | slow
	DownMS  int    `json:"down_ms"`  // the sink stops listening for this long (0 = keeps listening)
	PauseMS int    `json:"pause_ms"` // feeder pause after handing over message number After (lets the break happen between messages)
	// StallMS > 0 (kind "stall"): the sink stops reading for this long, so that the producer blocks in the
	// middle of a large message, then resets the connection
	// kind "slow": the sink stops reading for StallMS and then simply goes on reading (no close, no reset) while
	// the feeder keeps the producer's queue full: nothing may be lost, doubled or reordered
	StallMS int `json:"stall_ms,omitempty"`
}

type c14Case struct {
	Protocol string     `json:"protocol"` // tcp | udp
	RetryMax int        `json:"retry_max"`
	Msgs     []wire.Hex `json:"msgs"` // payloads; message i on the wire is {"i":<i>,"p":"<payload>"} — see c14Message
	Breaks   []c14Break `json:"breaks,omitempty"`
	// AgeMS: how long the producer has been up (connected, idle) before the first message is handed over; a break
	// late in the producer's life must be handled like one right after start-up
	AgeMS int `json:"age_ms,omitempty"`
	// PadTo > 0: every payload is extended at run time to this many octets with a filler derived from its index
	// (megabytes of traffic without megabytes of case)
	PadTo int `json:"pad_to,omitempty"`
	// Exact: message index -> exact length of the message as handed to the producer (the payload is extended at
	// run time): lengths on and next to the 8-, 12-, 16- and 17-bit marks
	Exact map[int]int `json:"exact,omitempty"`
	// PaceUS > 0: the feeder waits this many microseconds after every message, so that an outage costs a limited
	// number of messages and later breaks of the plan still find traffic
	PaceUS int `json:"pace_us,omitempty"`
	// Arena: the messages are handed over as adjacent sub-slices of one buffer (a feeder that encodes into an arena),
	// so each handed slice has spare capacity that belongs to the next message; otherwise as private copies
	Arena bool `json:"arena,omitempty"`
	// LongRun > len(Msgs): the payload list is repeated cyclically up to this many messages at run time (a connection
	// that carries more than 2^16 messages without megabytes of case)
	LongRun int `json:"long_run,omitempty"`
	// Quiet: message index -> milliseconds the feeder has nothing to hand over before that message (no fault of the
	// sink is involved: the no-fault oracle applies however long the producer sat idle)
	Quiet map[int]int `json:"quiet,omitempty"`
}

const c14Rule = "case = raw-socket producer configuration (tcp | udp, retry-max 0..4) + 1..300 messages (1 octet..48 KiB, in a quarter of the tcp cases some extended to exactly 255..131073 octets on and next to the 8-, 12-, 16- and 17-bit marks; JSON-like text rich in %d %s %% %! verbs, quotes, UTF-8 and arbitrary non-newline octets, each tagged with its index; in a quarter of the cases handed over as adjacent sub-slices of one buffer instead of private copies: the producer must not touch memory beyond the message, and the buffer must be unchanged afterwards) " +
	"+ fault plan (tcp): none, or 1..3 breaks (after message i the sink closes gracefully | resets the connection, optionally stops listening for a drawn downtime; with two or more breaks the feeder is paced so that later breaks still find traffic), or a quiet plan (6..40 messages with one to three spells of 0.6..3.3 s in which the feeder has nothing to hand over while the sink is up: the no-fault oracle applies), or a long-run plan (65 600..72 000 short messages on one connection, in half of the cases with a sink that stops reading for 0.3 / 1.2 s 40..400 messages before the 2^16 mark and then goes on: the no-fault oracle applies), or a flap plan (8..40 closes / resets with the listener up while 1500..4000 messages flow back to back), or an outage plan (2..4 outages on one producer, each costing a drawn 2..140 messages of a paced feeder, delivered traffic in between), or a stall plan (the sink stops reading while 30..60 messages of 48 KiB follow, so that a write blocks half-way, then resets), or a slow-sink plan (the sink stops reading for 0.3..5.5 s (thorough: ..31 s) and then goes on, while 1200..2500 messages keep the producer's queue full: the no-fault oracle applies); with a fault plan the producer may have been up and idle for 0.4..5.5 s (thorough: ..31 s) before traffic starts; the real producer.NewProducer(\"rawSocket\").Run() writes to a sink owned by the harness; " +
	"oracle without fault = the sink's byte stream is exactly concat(message + newline) (udp: one datagram per message, paced; in a third of the udp cases the sink's socket is closed for 5..150 ms and bound again to the same port: delivery must resume within retry-max+4 messages handed over one at a time, every datagram that arrives is exactly its message); with faults (every break index is a fault point) = the complete lines received over all connections are " +
	"byte-identical input messages with strictly increasing indices (no duplicate, no corruption, no reordering), and once the sink is reachable again probe messages handed over one at a time resume delivery within retry-max+4 probes with nothing missing afterwards; " +
	"non-trivial = a message contains '%' or is >= 4 KiB, or the plan has a break; distinct by hash"

// c14Nonce identifies the case under way (process id and a counter): the producer of an EARLIER case may still be
// alive, re-dialling its old port, which the system may since have handed to this case's sink (also in another shard's
// process); what such a stray sends is recognised by its tag and ignored.
var (
	c14Nonce string
	c14Runs  int64
)

func c14Tag() []byte { return []byte(`"c":"` + c14Nonce + `"`) }

var c14TagRe = regexp.MustCompile(`"c":"[0-9]+-[0-9]+"`)

// foreignTag: the octets begin a message of ANOTHER case (they carry a case tag, and it is not ours). Octets without
// any tag — the tail of a message at the start of a connection, say — are this case's business and are judged.
func foreignTag(head, own []byte) bool {
	m := c14TagRe.Find(head)
	return m != nil && !bytes.Equal(m, own)
}

func c14Message(i int, payload []byte) []byte {
	var b bytes.Buffer
	fmt.Fprintf(&b, `{"i":%d,"c":"%s","p":"`, i, c14Nonce)
	b.Write(payload)
	b.WriteString(`"}`)
	return b.Bytes()
}

var c14Snippets = []string{"%d", "%s", "%v", "%%", "%!", "%", "100%", "%+v", "%x", "%05.2f", "%[1]d", "%*d", "%!(EXTRA", `\"`, `\\`, "é", "日本語", "{}", "[1,2]", `"k":"v"`, " ", "\t", "\r", "\x00", "\xff\xfe", "null", "1e9"}

func genC14Payload(t *rapid.T) []byte {
	n := rapid.OneOf(rapid.IntRange(0, 40), rapid.IntRange(0, 400), rapid.SampledFrom([]int{4096, 8192, 49152})).Draw(t, "plen")
	var b []byte
	if n >= 4096 {
		seed := rapid.SampledFrom(c14Snippets).Draw(t, "bigseed") + "abc"
		for len(b) < n {
			b = append(b, seed...)
		}
		return b[:n]
	}
	for len(b) < n {
		if rapid.Bool().Draw(t, "snippet") {
			b = append(b, rapid.SampledFrom(c14Snippets).Draw(t, "snip")...)
		} else {
			x := rapid.Byte().Draw(t, "octet")
			if x == '\n' {
				x = ' '
			}
			b = append(b, x)
		}
	}
	return b
}

func genC14(t *rapid.T) c14Case {
	c := genC14Plan(t)
	if c.Protocol == "udp" && rapid.IntRange(0, 2).Draw(t, "udpoutage") == 0 {
		// the datagram sink goes away for a while (its socket is closed, the port answers "unreachable") and comes
		// back on the same port
		c.Breaks = []c14Break{{After: rapid.IntRange(1, len(c.Msgs)).Draw(t, "udpafter"), Kind: "udp-down", DownMS: rapid.SampledFrom([]int{5, 20, 60, 150}).Draw(t, "udpdownms")}}
	}
	c.Arena = rapid.IntRange(0, 3).Draw(t, "arena") == 0 && c.Protocol == "tcp"
	return c
}

func genC14Plan(t *rapid.T) c14Case {
	c := c14Case{Protocol: rapid.SampledFrom([]string{"tcp", "tcp", "tcp", "udp"}).Draw(t, "protocol"), RetryMax: rapid.IntRange(0, 4).Draw(t, "retrymax")}
	n := rapid.OneOf(rapid.IntRange(1, 12), rapid.IntRange(1, 60), rapid.IntRange(1, 300)).Draw(t, "nmsgs")
	total := 0
	for i := 0; i < n && total < 1<<21; i++ {
		p := genC14Payload(t)
		if c.Protocol == "udp" && len(p) > 8000 {
			p = p[:8000]
		}
		total += len(p)
		c.Msgs = append(c.Msgs, p)
	}
	if c.Protocol == "tcp" && rapid.IntRange(0, 3).Draw(t, "exactlens") == 0 {
		c.Exact = map[int]int{}
		for k, ne := 0, rapid.IntRange(1, 3).Draw(t, "nexact"); k < ne; k++ {
			c.Exact[rapid.IntRange(0, len(c.Msgs)-1).Draw(t, "exactidx")] = rapid.SampledFrom([]int{255, 256, 257, 4095, 4096, 4097, 65535, 65536, 65537, 131071, 131072, 131073}).Draw(t, "exactlen")
		}
	}
	if c.Protocol == "tcp" && rapid.IntRange(0, 11).Draw(t, "slowplan") == 0 {
		// a slow sink: it stops reading for a while, then goes on; enough messages to keep the queue (1000 slots) full
		c.Msgs = nil
		nm := rapid.IntRange(1200, 2500).Draw(t, "nslow")
		for i := 0; i < nm; i++ {
			c.Msgs = append(c.Msgs, []byte(rapid.SampledFrom(c14Snippets).Draw(t, "slowsnip")+"slow-sink-filler-0123456789"))
		}
		stalls := []int{300, 1200, 5500}
		if os.Getenv("VERIF_TIER") == "thorough" {
			stalls = append(stalls, 300, 1200, 5500, 11000, 31000)
		}
		c.Breaks = []c14Break{{After: rapid.IntRange(1, 40).Draw(t, "slowafter"), Kind: "slow", StallMS: rapid.SampledFrom(stalls).Draw(t, "slowms")}}
		// more octets than the socket buffers of both ends can absorb, so that the producer really blocks
		c.PadTo = rapid.SampledFrom([]int{2048, 4096, 8192}).Draw(t, "padto")
		if c.Breaks[0].StallMS > 6000 {
			// default socket buffers (several MiB): 2500..3200 messages of 16 KiB, far more than they absorb
			c.PadTo = 16384
			for len(c.Msgs) < 2500 {
				c.Msgs = append(c.Msgs, []byte("slow-sink-filler-0123456789"))
			}
		}
		return c
	}
	if c.Protocol == "tcp" && rapid.IntRange(0, 11).Draw(t, "quietplan") == 0 {
		// quiet spells: the sink is up and reading all the time, the feeder simply has nothing to hand over for
		// 0.6..3.3 s once to three times (5 s at most): every message still arrives exactly once and in order
		c.Msgs = nil
		for i, n := 0, rapid.IntRange(6, 40).Draw(t, "nquietmsgs"); i < n; i++ {
			c.Msgs = append(c.Msgs, []byte(rapid.SampledFrom(c14Snippets).Draw(t, "quietsnip")+"quiet"))
		}
		c.Quiet = map[int]int{}
		total := 0
		for k, ns := 0, rapid.IntRange(1, 3).Draw(t, "nquiets"); k < ns; k++ {
			ms := rapid.SampledFrom([]int{600, 1100, 2200, 2600, 3300}).Draw(t, "quietms")
			if total+ms > 5000 {
				continue
			}
			total += ms
			c.Quiet[rapid.IntRange(0, len(c.Msgs)-1).Draw(t, "quietat")] += ms
		}
		return c
	}
	if c.Protocol == "tcp" && rapid.IntRange(0, 15).Draw(t, "longplan") == 0 {
		// a long-lived connection: more than 2^16 short messages on one connection, in half of the cases with a sink
		// that stops reading for a moment shortly before the 2^16 mark and then goes on (the no-fault oracle applies:
		// everything arrives exactly once and in order)
		c.Msgs = nil
		for i, n := 0, rapid.IntRange(3, 12).Draw(t, "nlongsnips"); i < n; i++ {
			c.Msgs = append(c.Msgs, []byte(rapid.SampledFrom(c14Snippets).Draw(t, "longsnip")+"long"))
		}
		c.LongRun = rapid.IntRange(65600, 72000).Draw(t, "longrun")
		if rapid.Bool().Draw(t, "longslow") {
			c.Breaks = []c14Break{{After: 65536 - rapid.IntRange(40, 400).Draw(t, "longbefore"), Kind: "slow", StallMS: rapid.SampledFrom([]int{300, 1200}).Draw(t, "longslowms")}}
		}
		return c
	}
	if c.Protocol == "tcp" && rapid.IntRange(0, 7).Draw(t, "stallplan") == 0 {
		// a sink that stops reading: enough large messages follow the break to fill the socket buffers
		nbig := rapid.IntRange(30, 60).Draw(t, "nbig")
		for i := 0; i < nbig; i++ {
			seed := rapid.SampledFrom(c14Snippets).Draw(t, "stallseed") + "stall"
			var b []byte
			for len(b) < 49152 {
				b = append(b, seed...)
			}
			c.Msgs = append(c.Msgs, b[:49152])
		}
		c.Breaks = []c14Break{{After: rapid.IntRange(1, 3).Draw(t, "stallafter"), Kind: "stall", StallMS: rapid.SampledFrom([]int{80, 150, 300}).Draw(t, "stallms")}}
		return c
	}
	if c.Protocol == "tcp" && rapid.IntRange(0, 9).Draw(t, "flapplan") == 0 {
		// a flapping sink: it closes or resets the connection again and again (its listener stays up) while messages
		// flow back to back — the producer is in the middle of its writes every time
		c.Msgs = nil
		nm := rapid.IntRange(1500, 4000).Draw(t, "nflap")
		for i := 0; i < nm; i++ {
			c.Msgs = append(c.Msgs, []byte(rapid.SampledFrom(c14Snippets).Draw(t, "flapsnip")+"flap"))
		}
		at := 0
		for k, nb := 0, rapid.IntRange(8, 40).Draw(t, "nflaps"); k < nb; k++ {
			at += rapid.IntRange(5, 60).Draw(t, "flapevery")
			c.Breaks = append(c.Breaks, c14Break{After: at, Kind: rapid.SampledFrom([]string{"close", "rst"}).Draw(t, "flapkind")})
		}
		return c
	}
	if c.Protocol == "tcp" && rapid.IntRange(0, 7).Draw(t, "outageplan") == 0 {
		// a history of 2..4 sink outages on one producer, each costing a drawn number of messages (paced feeder:
		// downtime / pace messages are handed over while the sink is away), with delivered traffic in between
		c.Msgs = nil
		c.PaceUS = rapid.SampledFrom([]int{500, 1000, 2000}).Draw(t, "opace")
		no := rapid.IntRange(2, 4).Draw(t, "noutages")
		at, need := 0, 0
		for k := 0; k < no; k++ {
			// messages expected to be handed over during the downtime
			lost := rapid.OneOf(rapid.IntRange(2, 15), rapid.IntRange(17, 70), rapid.IntRange(2, 140)).Draw(t, "olost")
			at += rapid.IntRange(1, 20).Draw(t, "obetween")
			down := lost * c.PaceUS / 1000
			if down < 1 {
				down = 1
			}
			c.Breaks = append(c.Breaks, c14Break{After: at, Kind: rapid.SampledFrom([]string{"close", "rst"}).Draw(t, "okind"), DownMS: down})
			need += 2*lost + 4 // handed over while the sink is away (timing: up to twice the drawn number)
		}
		nm := at + need + 30 + rapid.IntRange(0, 60).Draw(t, "otail")
		for i := 0; i < nm; i++ {
			c.Msgs = append(c.Msgs, []byte(rapid.SampledFrom(c14Snippets).Draw(t, "osnip")))
		}
		return c
	}
	if c.Protocol == "tcp" && rapid.IntRange(0, 2).Draw(t, "faulty") > 0 {
		nb := rapid.IntRange(1, 3).Draw(t, "nbreaks")
		last := -1
		for i := 0; i < nb; i++ {
			if last+1 > len(c.Msgs)-1 {
				break
			}
			after := rapid.IntRange(last+1, len(c.Msgs)-1).Draw(t, "after")
			last = after
			b := c14Break{After: after + 1, Kind: rapid.SampledFrom([]string{"close", "rst"}).Draw(t, "bkind")}
			if rapid.Bool().Draw(t, "down") {
				b.DownMS = rapid.SampledFrom([]int{5, 20, 60, 150}).Draw(t, "downms")
			}
			b.PauseMS = rapid.SampledFrom([]int{0, 0, 2, 20}).Draw(t, "pausems")
			c.Breaks = append(c.Breaks, b)
		}
		if len(c.Breaks) >= 2 || rapid.Bool().Draw(t, "paced") {
			c.PaceUS = rapid.SampledFrom([]int{100, 300, 1000, 3000}).Draw(t, "paceus")
		}
		ages := []int{0, 0, 0, 0, 0, 0, 0, 0, 0, 0, 400, 1500, 3200, 5500}
		if os.Getenv("VERIF_TIER") == "thorough" {
			ages = append(append(ages, ages...), 0, 0, 11000, 31000)
		}
		c.AgeMS = rapid.SampledFrom(ages).Draw(t, "agems")
	}
	return c
}

// ---------------------------------------------------------------- sink

type c14Sink struct {
	mu       sync.Mutex
	ln       net.Listener
	addr     string
	lines    [][]byte // complete lines in arrival order, all connections
	stream   []byte   // concatenated bytes of all connections (no-fault oracle)
	conns    int
	breaks   []c14Break
	nextBrk  int
	brkDone  int // breaks fully executed (connection closed, downtime over)
	stopped  bool
	wg       sync.WaitGroup
	progress chan struct{}
	tag      []byte // the case's tag (see c14Nonce)
	strays   int    // connections of an earlier case's producer, dropped
}

func (s *c14Sink) notify() {
	select {
	case s.progress <- struct{}{}:
	default:
	}
}

func (s *c14Sink) listen() error {
	var err error
	lc := net.ListenConfig{}
	for _, b := range s.breaks {
		// (a long pause behind a window of a few KiB leaves the connection crawling from one persist probe to the next
		// for minutes: sinks that pause for more than 6 s keep the default buffers and are sent more octets instead)
		if b.Kind == "stall" || (b.Kind == "slow" && b.StallMS <= 6000) {
			// a small receive window, inherited by accepted connections, lets the producer's writes block early
			lc.Control = func(network, address string, c syscall.RawConn) error {
				return c.Control(func(fd uintptr) { syscall.SetsockoptInt(int(fd), syscall.SOL_SOCKET, syscall.SO_RCVBUF, 4096) })
			}
		}
	}
	for i := 0; i < 50; i++ {
		s.ln, err = lc.Listen(context.Background(), "tcp", s.addr)
		if err == nil {
			return nil
		}
		time.Sleep(10 * time.Millisecond)
	}
	return err
}

func (s *c14Sink) acceptLoop(ln net.Listener) {
	defer s.wg.Done()
	for {
		conn, err := ln.Accept()
		if err != nil {
			return
		}
		s.mu.Lock()
		s.conns++
		s.mu.Unlock()
		s.wg.Add(1)
		go s.serve(conn)
	}
}

func (s *c14Sink) serve(conn net.Conn) {
	defer s.wg.Done()
	defer conn.Close()
	var pending []byte
	buf := make([]byte, 65536)
	// whose connection is this? its first octets carry the case's tag; a stray of an earlier case is dropped whole
	identified := false
	var hold []byte
	for {
		n, err := conn.Read(buf)
		if n > 0 && !identified {
			hold = append(hold, buf[:n]...)
			if len(hold) < 96 && bytes.IndexByte(hold, '\n') < 0 && err == nil {
				continue
			}
			head := hold
			if len(head) > 96 {
				head = head[:96]
			}
			if foreignTag(head, s.tag) {
				s.mu.Lock()
				s.strays++
				s.mu.Unlock()
				return
			}
			identified = true
			n = copy(buf, hold)
			if n < len(hold) {
				buf = append(buf[:0], hold...)
				n = len(hold)
			}
			hold = nil
		}
		if n > 0 {
			s.mu.Lock()
			s.stream = append(s.stream, buf[:n]...)
			pending = append(pending, buf[:n]...)
			for {
				i := bytes.IndexByte(pending, '\n')
				if i < 0 {
					break
				}
				s.lines = append(s.lines, append([]byte{}, pending[:i]...))
				pending = pending[i+1:]
			}
			var brk *c14Break
			if s.nextBrk < len(s.breaks) && len(s.lines) >= s.breaks[s.nextBrk].After {
				brk = &s.breaks[s.nextBrk]
				s.nextBrk++
			}
			s.mu.Unlock()
			s.notify()
			if brk != nil && brk.Kind == "slow" {
				// stop reading, then go on as if nothing had happened
				time.Sleep(time.Duration(brk.StallMS) * time.Millisecond)
				s.mu.Lock()
				s.brkDone++
				s.mu.Unlock()
				brk = nil
			}
			if brk != nil {
				if brk.DownMS > 0 {
					s.mu.Lock()
					ln := s.ln
					s.mu.Unlock()
					ln.Close()
				}
				if brk.Kind == "stall" {
					// stop reading: the peer's writes fill the socket buffers and block; then reset
					time.Sleep(time.Duration(brk.StallMS) * time.Millisecond)
				}
				if brk.Kind == "rst" || brk.Kind == "stall" {
					if tc, ok := conn.(*net.TCPConn); ok {
						tc.SetLinger(0)
					}
				}
				conn.Close()
				if brk.DownMS > 0 {
					time.Sleep(time.Duration(brk.DownMS) * time.Millisecond)
					s.mu.Lock()
					stopped := s.stopped
					s.mu.Unlock()
					if !stopped {
						if err := s.listen(); err == nil {
							s.wg.Add(1)
							go s.acceptLoop(s.ln)
						}
					}
				}
				s.mu.Lock()
				s.brkDone++
				s.mu.Unlock()
				s.notify()
				return
			}
		}
		if err != nil {
			return
		}
	}
}

func (s *c14Sink) streamLen() int {
	s.mu.Lock()
	defer s.mu.Unlock()
	return len(s.stream)
}

func (s *c14Sink) count() int {
	s.mu.Lock()
	defer s.mu.Unlock()
	return len(s.lines)
}

// waitLines waits until at least n complete lines arrived or the timeout expired.
func (s *c14Sink) waitLines(n int, d time.Duration) bool {
	deadline := time.Now().Add(d)
	for {
		if s.count() >= n {
			return true
		}
		rem := time.Until(deadline)
		if rem <= 0 {
			return false
		}
		if rem > 20*time.Millisecond {
			rem = 20 * time.Millisecond
		}
		select {
		case <-s.progress:
		case <-time.After(rem):
		}
	}
}

// ---------------------------------------------------------------- execution

func c14Dir() string {
	d := os.Getenv("VERIF_WORK")
	if d == "" {
		d = os.TempDir()
	}
	d = filepath.Join(d, fmt.Sprintf("c14-%d", os.Getpid()))
	os.MkdirAll(d, 0o755)
	return d
}

func runC14(c *c14Case) (v verdict, sig string, err error) {
	c14Nonce = fmt.Sprintf("%d-%d", os.Getpid(), atomic.AddInt64(&c14Runs, 1))
	if len(c.Msgs) == 0 {
		return v, "", fmt.Errorf("bad case: no messages")
	}
	hasPct, big := false, false
	for _, m := range c.Msgs {
		if bytes.IndexByte(m, '\n') >= 0 {
			return v, "", fmt.Errorf("bad case: newline in a message")
		}
		if bytes.IndexByte(m, '%') >= 0 {
			hasPct = true
		}
		if len(m) >= 4096 {
			big = true
		}
	}
	v.label(true, "protocol-"+c.Protocol)
	v.label(hasPct, "percent-in-message")
	v.label(big, "message>=4KiB")
	v.label(len(c.Breaks) > 0, "fault-plan")
	for _, b := range c.Breaks {
		v.label(true, "break-"+b.Kind)
		v.label(b.DownMS > 0, "sink-downtime")
	}
	v.label(c.RetryMax == 0, "retry-max-0")
	v.NT = hasPct || big || len(c.Breaks) > 0 || len(c.Quiet) > 0

	if c.Protocol == "udp" {
		return runC14UDP(c, v)
	}
	sink := &c14Sink{addr: "127.0.0.1:0", breaks: c.Breaks, progress: make(chan struct{}, 1), tag: c14Tag()}
	if e := sink.listen(); e != nil {
		return v, "", fmt.Errorf("harness: %v", e)
	}
	sink.addr = sink.ln.Addr().String()
	sink.wg.Add(1)
	go sink.acceptLoop(sink.ln)
	defer func() {
		sink.mu.Lock()
		sink.stopped = true
		ln := sink.ln
		sink.mu.Unlock()
		ln.Close()
	}()

	dir := c14Dir()
	cfg := filepath.Join(dir, fmt.Sprintf("mq-%d.conf", time.Now().UnixNano()))
	os.WriteFile(cfg, []byte(fmt.Sprintf("url: %q\nprotocol: tcp\nretry-max: %d\n", sink.addr, c.RetryMax)), 0o644)
	defer os.Remove(cfg)

	var ec uint64
	ch := make(chan []byte, 1000)
	p := producer.NewProducer("rawSocket")
	p.MQConfigFile = cfg
	p.MQErrorCount = &ec
	p.Logger = log.New(io.Discard, "", 0)
	p.Chan = ch
	p.Topic = "verif"
	runErr := make(chan error, 1)
	var perr atomic.Value
	go func() {
		defer func() {
			if r := recover(); r != nil {
				perr.Store(fmt.Sprintf("producer panicked: %v", r))
				runErr <- nil
			}
		}()
		runErr <- p.Run()
	}()
	finish := func() {
		close(ch)
		select {
		case <-runErr:
		case <-time.After(5 * time.Second):
		}
	}

	payloads := c.Msgs
	if c.LongRun > len(c.Msgs) {
		if c.LongRun > 1<<20 {
			return v, "", fmt.Errorf("bad case: long run")
		}
		payloads = make([]wire.Hex, c.LongRun)
		for i := range payloads {
			payloads[i] = c.Msgs[i%len(c.Msgs)]
		}
		v.label(true, "connection-carries>65536-messages")
	}
	wireMsgs := make([][]byte, len(payloads))
	for i, m := range payloads {
		if c.PadTo > len(m) && c.PadTo <= 65536 {
			pm := make([]byte, c.PadTo)
			copy(pm, m)
			for k := len(m); k < len(pm); k++ {
				pm[k] = "0123456789abcdefghijklmnopqrstuvwxyz%"[(k+i)%37]
			}
			m = pm
		}
		wireMsgs[i] = c14Message(i, m)
		if want := c.Exact[i]; want > len(wireMsgs[i]) && want <= 1<<20 {
			pm := make([]byte, len(m)+want-len(wireMsgs[i]))
			copy(pm, m)
			for k := len(m); k < len(pm); k++ {
				pm[k] = "abcdefghijklmnopqrstuvwxyz0123456789%"[(k+i)%37]
			}
			wireMsgs[i] = c14Message(i, pm)
			v.label(true, "message-of-exact-boundary-length")
		}
	}
	brkAt := map[int]c14Break{}
	for _, b := range c.Breaks {
		brkAt[b.After-1] = b
	}
	if c.AgeMS > 0 {
		if c.AgeMS > 60000 {
			return v, "", fmt.Errorf("bad case: age")
		}
		time.Sleep(time.Duration(c.AgeMS) * time.Millisecond)
		v.label(c.AgeMS >= 3000, "producer-up>=3s-before-break")
	}
	var arena, arenaCopy []byte
	var handed [][]byte
	if c.Arena {
		for _, m := range wireMsgs {
			arena = append(arena, m...)
		}
		arena = append(arena, "tail-of-the-arena"...)
		arenaCopy = append([]byte{}, arena...)
		off := 0
		for _, m := range wireMsgs {
			handed = append(handed, arena[off:off+len(m)])
			off += len(m)
		}
		v.label(true, "messages-handed-over-as-adjacent-sub-slices")
	}
	arenaIntact := func() error {
		if c.Arena && !bytes.Equal(arena, arenaCopy) {
			return fmt.Errorf("the producer wrote into the memory the messages were handed over in (adjacent sub-slices of one buffer): %s", firstDiff(arena, arenaCopy))
		}
		return nil
	}
	for i, m := range wireMsgs {
		if ms := c.Quiet[i]; ms > 0 && ms <= 10000 {
			time.Sleep(time.Duration(ms) * time.Millisecond)
			v.label(true, "producer-idle-between-messages")
			v.label(ms >= 2000, "producer-idle>=2s")
		}
		if c.Arena {
			ch <- handed[i]
		} else {
			ch <- append([]byte{}, m...)
		}
		if c.PaceUS > 0 && c.PaceUS <= 100000 {
			time.Sleep(time.Duration(c.PaceUS) * time.Microsecond)
		}
		if b, ok := brkAt[i]; ok && b.PauseMS > 0 {
			time.Sleep(time.Duration(b.PauseMS) * time.Millisecond)
		}
	}

	onlySlow, slowMS := len(c.Breaks) > 0, 0
	for _, b := range c.Breaks {
		if b.Kind != "slow" {
			onlySlow = false
		}
		slowMS += b.StallMS
	}
	if len(c.Breaks) == 0 || onlySlow {
		// the connection never breaks: everything must arrive, exactly once and in order
		ok := sink.waitLines(len(wireMsgs), 20*time.Second+time.Duration(slowMS)*time.Millisecond)
		// a deadline is no verdict: while the stream still grows the wait goes on (at most 10 minutes); only a stream
		// that has stopped short is judged
		for started := time.Now(); !ok && time.Since(started) < 10*time.Minute; {
			before := sink.streamLen()
			ok = sink.waitLines(len(wireMsgs), 30*time.Second)
			if !ok && sink.streamLen() == before {
				break
			}
		}
		finish()
		sink.mu.Lock()
		stream := append([]byte{}, sink.stream...)
		sink.mu.Unlock()
		if s := perr.Load(); s != nil {
			return v, "panic", fmt.Errorf("%s", s)
		}
		var want []byte
		for _, m := range wireMsgs {
			want = append(want, m...)
			want = append(want, '\n')
		}
		if e := arenaIntact(); e != nil {
			return v, "arena", e
		}
		if !bytes.Equal(stream, want) {
			return v, "stream", fmt.Errorf("sink stream differs from the messages handed over (%d messages; all arrived in time: %v): %s", len(wireMsgs), ok, firstDiff(stream, want))
		}
		if n := atomic.LoadUint64(&ec); n != 0 {
			return v, "error-count", fmt.Errorf("error counter is %d although no write failed", n)
		}
		return v, "", nil
	}

	// fault plan: let the producer work through the backlog, then probe
	time.Sleep(30 * time.Millisecond)
	for i := 0; i < 100; i++ {
		if len(ch) == 0 {
			break
		}
		time.Sleep(20 * time.Millisecond)
	}
	// the fault plan is over: breaks that were not reached are disarmed before the probes start
	sink.mu.Lock()
	triggered := sink.nextBrk
	sink.nextBrk = len(sink.breaks)
	sink.mu.Unlock()
	v.label(triggered >= 2, "breaks-reached>=2")
	v.label(triggered >= 3, "breaks-reached>=3")
	// breaks that have begun (a stall, a downtime) must be over before the probes start
	for i := 0; i < 400; i++ {
		sink.mu.Lock()
		done := sink.brkDone
		sink.mu.Unlock()
		if done >= triggered {
			break
		}
		time.Sleep(10 * time.Millisecond)
	}
	time.Sleep(30 * time.Millisecond)
	// probes, handed over one at a time: the next one follows when the previous one arrived, or when the
	// producer has taken it from the channel and had time to write (and retry) it
	nProbes := c.RetryMax + 4 + 3
	base := len(wireMsgs)
	for k := 0; k < nProbes; k++ {
		m := c14Message(base+k, []byte("probe%d"))
		wireMsgs = append(wireMsgs, m)
		ch <- append([]byte{}, m...)
		deadline := time.Now().Add(2 * time.Second)
		taken := time.Time{}
		for time.Now().Before(deadline) {
			if hasLine(sink, m) {
				break
			}
			if len(ch) == 0 {
				if taken.IsZero() {
					taken = time.Now()
				} else if time.Since(taken) > 200*time.Millisecond {
					break
				}
			}
			select {
			case <-sink.progress:
			case <-time.After(10 * time.Millisecond):
			}
		}
	}
	// settle: late arrivals still count as delivered
	for i, lastN := 0, -1; i < 50; i++ {
		n := sink.count()
		if n == lastN && i > 5 {
			break
		}
		lastN = n
		time.Sleep(20 * time.Millisecond)
	}
	finish()
	if s := perr.Load(); s != nil {
		return v, "panic", fmt.Errorf("%s", s)
	}
	if e := arenaIntact(); e != nil {
		return v, "arena", e
	}
	sink.mu.Lock()
	lines := append([][]byte{}, sink.lines...)
	sink.mu.Unlock()
	// subsequence with strictly increasing indices, byte-identical
	idx := map[string]int{}
	for i, m := range wireMsgs {
		idx[string(m)] = i
	}
	last, gaps := -1, 0
	for n, l := range lines {
		i, ok := idx[string(l)]
		if !ok {
			return v, "corrupted", fmt.Errorf("line %d received by the sink is none of the messages handed over: %.200q", n, l)
		}
		if i == last {
			return v, "duplicate", fmt.Errorf("message %d delivered twice", i)
		}
		if i < last {
			return v, "reordered", fmt.Errorf("message %d delivered after message %d", i, last)
		}
		if i-last-1 >= 2 {
			gaps++
			v.label(i-last-1 > 16, "gap>16-messages")
		}
		last = i
	}
	v.label(gaps >= 2, "gaps-of>=2-messages>=2")
	delivered := make([]bool, nProbes)
	for _, l := range lines {
		if i, ok := idx[string(l)]; ok && i >= base {
			delivered[i-base] = true
		}
	}
	first := -1
	for k, d := range delivered {
		if d {
			first = k
			break
		}
	}
	if first < 0 || first > c.RetryMax+3 {
		return v, "no-resume", fmt.Errorf("delivery did not resume after the sink was reachable again: probes delivered %v (retry-max %d)", delivered, c.RetryMax)
	}
	for k := first; k < nProbes; k++ {
		if !delivered[k] {
			return v, "gap-after-resume", fmt.Errorf("probe %d lost after delivery had resumed: %v", k, delivered)
		}
	}
	return v, "", nil
}

// runC14UDPOutage: the sink's socket is closed after message After-1 for DownMS (messages handed over meanwhile may
// be lost), then bound again to the same port; delivery must resume within retry-max+4 messages and lose nothing
// afterwards; every datagram that arrives is exactly the message it was handed over as.
// readOwn reads the next datagram that carries the case's tag (a stray of an earlier case's producer is ignored).
func readOwn(pc net.PacketConn, buf []byte) (int, error) {
	tag := c14Tag()
	for {
		n, _, err := pc.ReadFrom(buf)
		if err != nil {
			return n, err
		}
		head := buf[:n]
		if len(head) > 96 {
			head = head[:96]
		}
		if !foreignTag(head, tag) {
			return n, nil
		}
	}
}

func runC14UDPOutage(c *c14Case, v verdict, pc net.PacketConn, ch chan []byte) (verdict, string, error) {
	b := c.Breaks[0]
	addr := pc.LocalAddr().String()
	msgs := make([][]byte, 0, len(c.Msgs)+c.RetryMax+10)
	for i, pl := range c.Msgs {
		msgs = append(msgs, c14Message(i, pl))
	}
	for k := 0; k < c.RetryMax+10; k++ {
		msgs = append(msgs, c14Message(len(msgs), []byte("probe%d")))
	}
	buf := make([]byte, 70000)
	down, everDown, resumed := false, false, false
	var downUntil time.Time
	lostAfter, downMsgs := 0, 0
	defer func() { pc.Close() }()
	for i, m := range msgs {
		if i == b.After && !everDown {
			pc.Close()
			down, everDown = true, true
			downUntil = time.Now().Add(time.Duration(b.DownMS) * time.Millisecond)
		}
		ch <- append([]byte{}, m...)
		if down {
			time.Sleep(2 * time.Millisecond)
			downMsgs++
			// the sink stays away for DownMS; at most 20 messages are handed over meanwhile (and enough are kept for
			// the time after its return)
			if downMsgs >= 20 || len(msgs)-i-1 <= c.RetryMax+8 {
				if d := time.Until(downUntil); d > 0 {
					time.Sleep(d)
				}
			}
			if time.Now().After(downUntil) {
				var e error
				for try := 0; try < 100; try++ {
					if pc, e = net.ListenPacket("udp", addr); e == nil {
						break
					}
					time.Sleep(10 * time.Millisecond)
				}
				if e != nil {
					return v, "", fmt.Errorf("harness: cannot bind the sink's port again: %v", e)
				}
				down = false
				// let the producer finish the message in hand before the next one counts as "after the outage"
				time.Sleep(20 * time.Millisecond)
				pc.SetReadDeadline(time.Now().Add(30 * time.Millisecond))
				for {
					if _, err := readOwn(pc, buf); err != nil {
						break
					}
				}
			}
			continue
		}
		wait := 5 * time.Second
		if everDown && !resumed {
			wait = 400 * time.Millisecond
		}
		pc.SetReadDeadline(time.Now().Add(wait))
		n, err := readOwn(pc, buf)
		if err != nil {
			if everDown && !resumed {
				lostAfter++
				if lostAfter > c.RetryMax+3 {
					return v, "no-resume", fmt.Errorf("udp sink away for %d ms and back on the same port: %d messages handed over one at a time since then, none delivered (retry-max %d)", b.DownMS, lostAfter, c.RetryMax)
				}
				continue
			}
			return v, "udp-missing", fmt.Errorf("message %d (%d octets) was not delivered as a datagram within 5 s (sink outage before: %v): %v", i, len(m), everDown, err)
		}
		want := append(append([]byte{}, m...), '\n')
		if !bytes.Equal(buf[:n], want) {
			return v, "udp-content", fmt.Errorf("datagram for message %d differs from the message handed over: %s", i, firstDiff(buf[:n], want))
		}
		if everDown {
			resumed = true
		}
	}
	v.label(true, "udp-sink-outage")
	if everDown && !resumed {
		return v, "no-resume", fmt.Errorf("udp sink away for %d ms and back on the same port: delivery never resumed", b.DownMS)
	}
	return v, "", nil
}

func hasLine(s *c14Sink, m []byte) bool {
	s.mu.Lock()
	defer s.mu.Unlock()
	for i := len(s.lines) - 1; i >= 0 && i >= len(s.lines)-8; i-- {
		if bytes.Equal(s.lines[i], m) {
			return true
		}
	}
	return false
}

func firstDiff(got, want []byte) string {
	n := len(got)
	if len(want) < n {
		n = len(want)
	}
	i := 0
	for i < n && got[i] == want[i] {
		i++
	}
	lo := i - 20
	if lo < 0 {
		lo = 0
	}
	g, w := got[lo:], want[lo:]
	if len(g) > 80 {
		g = g[:80]
	}
	if len(w) > 80 {
		w = w[:80]
	}
	return fmt.Sprintf("lengths %d vs %d, first difference at octet %d: got ...%q, want ...%q", len(got), len(want), i, g, w)
}

func runC14UDP(c *c14Case, v verdict) (verdict, string, error) {
	pc, e := net.ListenPacket("udp", "127.0.0.1:0")
	if e != nil {
		return v, "", fmt.Errorf("harness: %v", e)
	}
	defer pc.Close()
	if uc, ok := pc.(*net.UDPConn); ok {
		uc.SetReadBuffer(8 << 20)
	}
	dir := c14Dir()
	cfg := filepath.Join(dir, fmt.Sprintf("mq-%d.conf", time.Now().UnixNano()))
	os.WriteFile(cfg, []byte(fmt.Sprintf("url: %q\nprotocol: udp\nretry-max: %d\n", pc.LocalAddr().String(), c.RetryMax)), 0o644)
	defer os.Remove(cfg)
	var ec uint64
	ch := make(chan []byte, 1000)
	p := producer.NewProducer("rawSocket")
	p.MQConfigFile = cfg
	p.MQErrorCount = &ec
	p.Logger = log.New(io.Discard, "", 0)
	p.Chan = ch
	p.Topic = "verif"
	done := make(chan error, 1)
	go func() { done <- p.Run() }()
	defer func() {
		close(ch)
		select {
		case <-done:
		case <-time.After(3 * time.Second):
		}
	}()
	buf := make([]byte, 70000)
	if len(c.Breaks) == 1 && c.Breaks[0].Kind == "udp-down" {
		return runC14UDPOutage(c, v, pc, ch)
	}
	for i, pl := range c.Msgs {
		m := c14Message(i, pl)
		ch <- append([]byte{}, m...)
		pc.SetReadDeadline(time.Now().Add(5 * time.Second))
		n, err := readOwn(pc, buf)
		if err != nil {
			return v, "udp-missing", fmt.Errorf("message %d (%d octets) was not delivered as a datagram within 5 s: %v", i, len(m), err)
		}
		want := append(append([]byte{}, m...), '\n')
		if !bytes.Equal(buf[:n], want) {
			return v, "udp-content", fmt.Errorf("datagram %d differs from the message handed over: %s", i, firstDiff(buf[:n], want))
		}
	}
	pc.SetReadDeadline(time.Now().Add(50 * time.Millisecond))
	if n, err := readOwn(pc, buf); err == nil {
		return v, "udp-extra", fmt.Errorf("an extra datagram of %d octets arrived after all messages had been delivered", n)
	}
	return v, "", nil
}

func TestC14(t *testing.T) {
	col := getCollector("C14", c14Rule)
	defer os.RemoveAll(c14Dir())
	runRegress(t, "C14")
	rapid.Check(t, func(t *rapid.T) {
		c := genC14(t)
		v, sig, err := runC14(&c)
		col.report(t, mustJSON(c), v, sig, err)
	})
	col.assume("only the raw-socket backend is decided: Kafka, NSQ and NATS need brokers that do not exist offline; their drivers hand the channel's slice to the client library unchanged")
}

var _ = strings.Contains

func init() {
	registerReplay("C14", func(raw json.RawMessage) error {
		var c c14Case
		if err := json.Unmarshal(raw, &c); err != nil {
			return err
		}
		_, _, err := runC14(&c)
		return err
	})
}
