package wire

import (
	"encoding/binary"

	"pgregory.net/rapid"
)

// Mutators for the robustness properties (C01, C02, C09): they turn well-formed wire bytes into
// malformed ones by editing length / count / type fields, truncating, extending, splicing, flipping bits.

var bound16 = []uint16{0, 1, 2, 3, 4, 5, 7, 8, 11, 12, 15, 16, 17, 255, 256, 257, 0x7fff, 0x8000, 0xfffe, 0xffff}
var bound32 = []uint32{0, 1, 2, 3, 4, 5, 7, 8, 9, 11, 12, 13, 16, 20, 1500, 1501, 0x7fffffff, 0x80000000, 0xfffffff0, 0xfffffff8, 0xfffffffc, 0xfffffffd, 0xffffffff}

// StructuralOffsets returns octet offsets of 16-bit structural fields of a template-based message:
// header length/count, set ids and lengths, everything inside template sets, the first octets of data sets.
func (m *Msg) StructuralOffsets() []int {
	offs := []int{0, 2}
	for i, r := range m.SetOffsets() {
		s := &m.Sets[i]
		offs = append(offs, r[0], r[0]+2)
		switch s.Kind {
		case "tpl", "opt":
			for o := r[0] + 4; o+1 < r[1]; o += 2 {
				offs = append(offs, o)
			}
		default:
			for o := r[0] + 4; o+1 < r[1] && o < r[0]+12; o++ {
				offs = append(offs, o)
			}
		}
	}
	return offs
}

// Mutate applies one drawn mutation to b (a copy is returned). offs are preferred offsets of
// structural fields (may be nil); width is 2 for IPFIX/NetFlow, 4 for sFlow (XDR words).
func Mutate(t *rapid.T, b []byte, offs []int, width int, other []byte) ([]byte, string) {
	out := append([]byte{}, b...)
	kind := rapid.IntRange(0, 11).Draw(t, "mut")
	pickOff := func() int {
		if len(offs) > 0 && rapid.IntRange(0, 3).Draw(t, "structural") != 0 {
			return offs[rapid.IntRange(0, len(offs)-1).Draw(t, "soff")]
		}
		if len(out) < width {
			return 0
		}
		o := rapid.IntRange(0, len(out)-width).Draw(t, "off")
		if width == 4 {
			o &^= 3
		}
		return o
	}
	switch {
	case kind <= 5 && len(out) >= width:
		o := pickOff()
		if o+width > len(out) {
			o = len(out) - width
		}
		if width == 2 {
			orig := binary.BigEndian.Uint16(out[o:])
			v := rapid.OneOf(rapid.SampledFrom(bound16), rapid.SampledFrom([]uint16{orig + 1, orig - 1, orig + 4, orig - 4, orig * 2}), rapid.Uint16()).Draw(t, "v16")
			binary.BigEndian.PutUint16(out[o:], v)
			return out, "set16"
		}
		orig := binary.BigEndian.Uint32(out[o:])
		v := rapid.OneOf(rapid.SampledFrom(bound32), rapid.SampledFrom([]uint32{orig + 1, orig - 1, orig + 4, orig - 4, orig * 2}), rapid.Uint32Range(0, 64), rapid.Uint32()).Draw(t, "v32")
		binary.BigEndian.PutUint32(out[o:], v)
		return out, "set32"
	case kind == 6 && len(out) > 0:
		return out[:rapid.IntRange(0, len(out)-1).Draw(t, "cut")], "truncate"
	case kind == 7:
		n := rapid.OneOf(rapid.IntRange(1, 8), rapid.IntRange(1, 64)).Draw(t, "ext")
		return append(out, rapid.SliceOfN(rapid.Byte(), n, n).Draw(t, "extbytes")...), "extend"
	case kind == 8 && len(other) > 0 && len(out) > 0:
		i := rapid.IntRange(0, len(out)).Draw(t, "splicea")
		j := rapid.IntRange(0, len(other)).Draw(t, "spliceb")
		return append(out[:i:i], other[j:]...), "splice"
	case kind == 9 && len(out) > 0:
		o := rapid.IntRange(0, len(out)-1).Draw(t, "flipoff")
		out[o] ^= 1 << uint(rapid.IntRange(0, 7).Draw(t, "bit"))
		return out, "bitflip"
	case kind == 10 && len(out) > 4:
		// duplicate a range in place
		i := rapid.IntRange(0, len(out)-2).Draw(t, "dupa")
		j := rapid.IntRange(i+1, len(out)).Draw(t, "dupb")
		dup := append([]byte{}, out[i:j]...)
		res := append([]byte{}, out[:j]...)
		res = append(res, dup...)
		return append(res, out[j:]...), "duplicate"
	case kind == 11 && len(out) > 4:
		// delete a range
		i := rapid.IntRange(0, len(out)-2).Draw(t, "dela")
		j := rapid.IntRange(i+1, len(out)).Draw(t, "delb")
		return append(out[:i:i], out[j:]...), "delete"
	}
	return out, "none"
}

var hostileLens = []uint16{0, 0, 0, 1, 2, 4, 8, 16, 255, 1000, 0x7fff, 0xfffe, 65535}

// WeirdTemplateSet draws a template / options-template set whose records are adversarial: zero fields,
// zero-length fields, huge lengths, variable-length markers on any type, counts that disagree with the
// specifiers present, template ids below 256.
func (e *GenEnv) WeirdTemplateSet(t *rapid.T, ids []uint16) Set {
	opt := rapid.Bool().Draw(t, "wopt")
	var body []byte
	nrec := rapid.IntRange(1, 3).Draw(t, "wnrec")
	for r := 0; r < nrec; r++ {
		var id uint16
		if len(ids) > 0 && rapid.IntRange(0, 3).Draw(t, "wknownid") != 0 {
			id = ids[rapid.IntRange(0, len(ids)-1).Draw(t, "widx")]
		} else {
			id = rapid.OneOf(rapid.SampledFrom([]uint16{0, 1, 2, 3, 4, 255, 256, 257, 65535}), rapid.Uint16()).Draw(t, "wid")
		}
		nf := rapid.OneOf(rapid.IntRange(0, 4), rapid.IntRange(0, 40)).Draw(t, "wnf")
		ns := 0
		if opt {
			ns = rapid.IntRange(0, nf).Draw(t, "wns")
		}
		body = put16(body, id)
		cnt := nf
		switch rapid.IntRange(0, 7).Draw(t, "wcntkind") {
		case 0:
			cnt = nf + 1
		case 1:
			cnt = int(rapid.SampledFrom(bound16).Draw(t, "wcnt"))
		case 2:
			if nf > 0 {
				cnt = nf - 1
			}
		}
		if e.Proto == "ipfix" {
			body = put16(body, uint16(cnt))
			if opt {
				sc := ns
				if rapid.IntRange(0, 5).Draw(t, "wsckind") == 0 {
					sc = int(rapid.SampledFrom(bound16).Draw(t, "wsc"))
				}
				body = put16(body, uint16(sc))
			}
		} else if opt {
			sl, ol := 4*ns, 4*(nf-ns)
			switch rapid.IntRange(0, 6).Draw(t, "wlenkind") {
			case 0:
				sl = int(rapid.SampledFrom(bound16).Draw(t, "wsl"))
			case 1:
				ol = int(rapid.SampledFrom(bound16).Draw(t, "wol"))
			case 2:
				sl += rapid.IntRange(1, 3).Draw(t, "wslo")
			}
			body = put16(body, uint16(sl))
			body = put16(body, uint16(ol))
		} else {
			body = put16(body, uint16(cnt))
		}
		for i := 0; i < nf; i++ {
			var f Field
			if rapid.IntRange(0, 4).Draw(t, "wunknownelem") == 0 {
				f = Field{ID: rapid.Uint16().Draw(t, "welem")}
				if e.Proto == "ipfix" && rapid.Bool().Draw(t, "wpen") {
					f.PEN = rapid.Uint32().Draw(t, "wpenv")
				}
			} else {
				f = e.GenField(t)
			}
			if rapid.IntRange(0, 2).Draw(t, "wkeeplen") != 0 {
				f.Len = rapid.OneOf(rapid.SampledFrom(hostileLens), rapid.Uint16Range(0, 64)).Draw(t, "wflen")
			}
			body = encodeFieldSpec(e.Proto, body, f)
		}
	}
	s := Set{Kind: "raw", RawBody: body}
	if e.Proto == "ipfix" {
		s.RawID = 2
		if opt {
			s.RawID = 3
		}
	} else {
		s.RawID = 0
		if opt {
			s.RawID = 1
		}
	}
	return s
}

// WeirdDataSet draws a set with any id (template ids in use, reserved ids, ids 0..3) and an arbitrary body.
func WeirdDataSet(t *rapid.T, ids []uint16) Set {
	var id uint16
	if len(ids) > 0 && rapid.IntRange(0, 2).Draw(t, "dknownid") != 0 {
		id = ids[rapid.IntRange(0, len(ids)-1).Draw(t, "didx")]
	} else {
		id = rapid.OneOf(rapid.SampledFrom([]uint16{0, 1, 2, 3, 4, 5, 255, 256, 257, 65535}), rapid.Uint16()).Draw(t, "did")
	}
	n := rapid.OneOf(rapid.IntRange(0, 16), rapid.IntRange(0, 200)).Draw(t, "dlen")
	body := rapid.OneOf(
		rapid.SliceOfN(rapid.Byte(), n, n),
		rapid.Just(make([]byte, n)),
	).Draw(t, "dbody")
	s := Set{Kind: "raw", RawID: id, RawBody: body}
	if rapid.IntRange(0, 4).Draw(t, "dlenmut") == 0 {
		s.LenDelta = rapid.SampledFrom([]int{-4, -3, -1, 1, 3, 4, 100, 60000}).Draw(t, "dlendelta")
	}
	return s
}
