package wire

import (
	"fmt"

	"pgregory.net/rapid"
)

// NetFlow v5: 24-octet header followed by 48-octet flow records.

type NF5Packet struct {
	Version   uint16 `json:"version"`
	Count     uint16 `json:"count"`
	SysUpTime uint32 `json:"sysuptime"`
	UnixSecs  uint32 `json:"unixsecs"`
	UnixNSecs uint32 `json:"unixnsecs"`
	Seq       uint32 `json:"seq"`
	EngType   uint8  `json:"engtype"`
	EngID     uint8  `json:"engid"`
	SmpInt    uint16 `json:"smpint"`
	Recs      []Hex  `json:"recs"`                 // carried records, 48 octets each
	Tail      Hex    `json:"tail,omitempty"`       // extra octets after the last full record (possibly a partial record)
	CutHeader int    `json:"cut_header,omitempty"` // when >0 the datagram is only the first CutHeader (<24) octets
}

func (p *NF5Packet) Bytes() []byte {
	var b []byte
	b = put16(b, p.Version)
	b = put16(b, p.Count)
	b = put32(b, p.SysUpTime)
	b = put32(b, p.UnixSecs)
	b = put32(b, p.UnixNSecs)
	b = put32(b, p.Seq)
	b = append(b, p.EngType, p.EngID)
	b = put16(b, p.SmpInt)
	if p.CutHeader > 0 && p.CutHeader < 24 {
		return b[:p.CutHeader]
	}
	for _, r := range p.Recs {
		b = append(b, r...)
	}
	return append(b, p.Tail...)
}

// NF5FieldNames lists the flow record fields in wire order with their sizes.
var NF5Fields = []struct {
	Name string
	Size int
	Addr bool
}{
	{"SrcAddr", 4, true}, {"DstAddr", 4, true}, {"NextHop", 4, true}, {"Input", 2, false}, {"Output", 2, false},
	{"PktCount", 4, false}, {"L3Octets", 4, false}, {"StartTime", 4, false}, {"EndTime", 4, false},
	{"SrcPort", 2, false}, {"DstPort", 2, false}, {"Padding1", 1, false}, {"TCPFlags", 1, false}, {"ProtType", 1, false},
	{"Tos", 1, false}, {"SrcAsNum", 2, false}, {"DstAsNum", 2, false}, {"SrcMask", 1, false}, {"DstMask", 1, false}, {"Padding2", 2, false},
}

// ExpectFlows returns, per expected flow, field name -> big-endian wire value; nil when the packet must yield no flows.
func (p *NF5Packet) ExpectFlows() []map[string]uint64 {
	if p.CutHeader > 0 && p.CutHeader < 24 {
		return nil
	}
	if p.Version != 5 || p.Count < 1 || p.Count > 30 {
		return nil
	}
	carried := len(p.Recs)*48 + len(p.Tail)
	if carried < int(p.Count)*48 {
		return nil
	}
	var body []byte
	for _, r := range p.Recs {
		body = append(body, r...)
	}
	body = append(body, p.Tail...)
	var out []map[string]uint64
	for i := 0; i < int(p.Count); i++ {
		rec := body[i*48 : (i+1)*48]
		m := map[string]uint64{}
		off := 0
		for _, f := range NF5Fields {
			var v uint64
			for _, x := range rec[off : off+f.Size] {
				v = v<<8 | uint64(x)
			}
			m[f.Name] = v
			off += f.Size
		}
		out = append(out, m)
	}
	return out
}

func (p *NF5Packet) ExpHeader() map[string]uint64 {
	return map[string]uint64{"Version": uint64(p.Version), "Count": uint64(p.Count), "SysUpTimeMSecs": uint64(p.SysUpTime),
		"UNIXSecs": uint64(p.UnixSecs), "UNIXNSecs": uint64(p.UnixNSecs), "SeqNum": uint64(p.Seq), "EngType": uint64(p.EngType),
		"EngID": uint64(p.EngID), "SmpInt": uint64(p.SmpInt)}
}

func Dotted(v uint64) string {
	return fmt.Sprintf("%d.%d.%d.%d", byte(v>>24), byte(v>>16), byte(v>>8), byte(v))
}

func genNF5Record(t *rapid.T) Hex {
	switch rapid.IntRange(0, 5).Draw(t, "reckind") {
	case 0:
		return make([]byte, 48)
	case 1:
		b := make([]byte, 48)
		for i := range b {
			b[i] = 0xff
		}
		return b
	case 2:
		// every field distinct so that swapped fields show
		b := make([]byte, 48)
		for i := range b {
			b[i] = byte(i + 1)
		}
		return b
	}
	return rapid.SliceOfN(rapid.Byte(), 48, 48).Draw(t, "rec")
}

// GenNF5 draws a NetFlow v5 datagram: header x count x records x total length (short, exact, long).
func GenNF5(t *rapid.T) NF5Packet {
	u32 := rapid.OneOf(rapid.SampledFrom([]uint32{0, 1, 0x7fffffff, 0x80000000, 0xffffffff}), rapid.Uint32())
	p := NF5Packet{Version: 5}
	if rapid.IntRange(0, 19).Draw(t, "badversion") == 0 {
		p.Version = rapid.SampledFrom([]uint16{0, 1, 4, 6, 9, 10, 0x0500, 0xffff}).Draw(t, "version")
	}
	p.Count = uint16(rapid.OneOf(
		rapid.SampledFrom([]int{0, 1, 2, 29, 30, 31}),
		rapid.IntRange(1, 30),
		rapid.IntRange(0, 40),
		rapid.SampledFrom([]int{255, 256, 1365, 65535}),
		// counts beyond 255 whose low octet alone would be a legal count (and 0 / 31 next to it)
		rapid.Custom(func(t *rapid.T) int {
			return rapid.SampledFrom([]int{1, 1, 2, 0x7f, 0x80, 0xff}).Draw(t, "counthi")<<8 | rapid.IntRange(0, 31).Draw(t, "countlo")
		}),
	).Draw(t, "count"))
	p.SysUpTime = u32.Draw(t, "uptime")
	p.UnixSecs = u32.Draw(t, "secs")
	p.UnixNSecs = u32.Draw(t, "nsecs")
	p.Seq = u32.Draw(t, "seq")
	p.EngType = rapid.Byte().Draw(t, "engtype")
	p.EngID = rapid.Byte().Draw(t, "engid")
	p.SmpInt = rapid.Uint16().Draw(t, "smpint")
	carried := int(p.Count)
	if carried > 40 {
		carried = rapid.IntRange(0, 32).Draw(t, "carried")
	}
	switch rapid.IntRange(0, 9).Draw(t, "lenkind") {
	case 0: // one record short
		if carried > 0 {
			carried--
		}
	case 1: // one octet short
		if carried > 0 {
			carried--
			p.Tail = rapid.SliceOfN(rapid.Byte(), 47, 47).Draw(t, "tail47")
		}
	case 2: // trailing octets
		p.Tail = rapid.SliceOfN(rapid.Byte(), 1, 60).Draw(t, "tail")
	case 3: // extra full records
		carried += rapid.IntRange(1, 3).Draw(t, "extra")
	case 4:
		if rapid.IntRange(0, 3).Draw(t, "cuthdr") == 0 {
			p.CutHeader = rapid.IntRange(1, 23).Draw(t, "cut")
		}
	}
	for i := 0; i < carried; i++ {
		p.Recs = append(p.Recs, genNF5Record(t))
	}
	return p
}
