package wire

import (
	"pgregory.net/rapid"
)

// L234 is a structured sampled packet header: Ethernet (optional 802.1Q tag), IPv4 without options or
// IPv6 without extension headers, then TCP / UDP / ICMP, then payload octets.
type L234 struct {
	Proto uint32 `json:"proto"` // sFlow header protocol: 1 Ethernet, 11 IPv4, 12 IPv6

	DstMAC  Hex    `json:"dmac,omitempty"`
	SrcMAC  Hex    `json:"smac,omitempty"`
	HasVlan bool   `json:"vlan,omitempty"`
	TCI     uint16 `json:"tci,omitempty"`
	// StackTags: further tags behind the first one (TPID<<16 | TCI each: 802.1Q in 802.1Q, 802.1ad, vendor TPIDs);
	// CutAtL2: the sampled header ends right behind the last tag. Robustness checks only: the collector decodes one tag
	StackTags []uint32 `json:"stack_tags,omitempty"`
	CutAtL2   bool     `json:"cut_at_l2,omitempty"`

	IPVer int `json:"ipver"` // 4 | 6
	// IPv4
	Ver4     uint8  `json:"ver4,omitempty"` // version nibble
	TOS      uint8  `json:"tos,omitempty"`
	TotalLen uint16 `json:"totallen,omitempty"`
	ID       uint16 `json:"id,omitempty"`
	Flags    uint8  `json:"flags,omitempty"`   // 3 bits
	FragOff  uint16 `json:"fragoff,omitempty"` // 13 bits
	TTL      uint8  `json:"ttl,omitempty"`
	Checksum uint16 `json:"cksum,omitempty"`
	// IPv6
	Ver6         uint8  `json:"ver6,omitempty"`
	TrafficClass uint8  `json:"tclass,omitempty"`
	FlowLabel    uint32 `json:"flowlabel,omitempty"` // 20 bits
	PayloadLen   uint16 `json:"payloadlen,omitempty"`
	HopLimit     uint8  `json:"hoplimit,omitempty"`
	// both
	L4Proto uint8 `json:"l4proto"` // IPv4 protocol / IPv6 next header
	Src     Hex   `json:"src"`
	Dst     Hex   `json:"dst"`

	L4 string `json:"l4"` // tcp | udp | icmp
	// TCP / UDP
	SrcPort uint16 `json:"sport,omitempty"`
	DstPort uint16 `json:"dport,omitempty"`
	// TCP octets 4..11 and 14..19
	TCPMid     Hex    `json:"tcpmid,omitempty"`   // 8 octets: sequence and acknowledgement numbers
	DataOffset uint8  `json:"doff,omitempty"`     // 4 bits
	TCPRes     uint8  `json:"tcpres,omitempty"`   // 3 reserved bits
	TCPFlags   uint16 `json:"tcpflags,omitempty"` // 9 bits
	TCPTail    Hex    `json:"tcptail,omitempty"`  // 6 octets: window, checksum, urgent
	// UDP octets 4..7
	UDPTail Hex `json:"udptail,omitempty"`
	// ICMP
	ICMPType uint8  `json:"icmptype,omitempty"`
	ICMPCode uint8  `json:"icmpcode,omitempty"`
	ICMPSum  uint16 `json:"icmpsum,omitempty"`
	ICMPRest Hex    `json:"icmprest,omitempty"` // 4 octets

	Payload Hex `json:"payload,omitempty"`
}

func (p *L234) EtherType() uint16 {
	if p.IPVer == 6 {
		return 0x86dd
	}
	return 0x0800
}

func (p *L234) Bytes() []byte {
	var b []byte
	if p.Proto == 1 {
		b = append(b, p.DstMAC...)
		b = append(b, p.SrcMAC...)
		if p.HasVlan {
			b = put16(b, 0x8100)
			b = put16(b, p.TCI)
		}
		for _, tg := range p.StackTags {
			b = put16(b, uint16(tg>>16))
			b = put16(b, uint16(tg))
		}
		if p.CutAtL2 {
			return b // the sampled header ends right behind the last tag
		}
		b = put16(b, p.EtherType())
	}
	if p.IPVer == 4 {
		b = append(b, p.Ver4<<4|5, p.TOS)
		b = put16(b, p.TotalLen)
		b = put16(b, p.ID)
		b = put16(b, uint16(p.Flags&7)<<13|p.FragOff&0x1fff)
		b = append(b, p.TTL, p.L4Proto)
		b = put16(b, p.Checksum)
		b = append(b, p.Src...)
		b = append(b, p.Dst...)
	} else {
		b = put32(b, uint32(p.Ver6&0xf)<<28|uint32(p.TrafficClass)<<20|p.FlowLabel&0xfffff)
		b = put16(b, p.PayloadLen)
		b = append(b, p.L4Proto, p.HopLimit)
		b = append(b, p.Src...)
		b = append(b, p.Dst...)
	}
	switch p.L4 {
	case "tcp":
		b = put16(b, p.SrcPort)
		b = put16(b, p.DstPort)
		b = append(b, p.TCPMid...)
		b = put16(b, uint16(p.DataOffset&0xf)<<12|uint16(p.TCPRes&7)<<9|p.TCPFlags&0x1ff)
		b = append(b, p.TCPTail...)
	case "udp":
		b = put16(b, p.SrcPort)
		b = put16(b, p.DstPort)
		b = append(b, p.UDPTail...)
	case "icmp":
		b = append(b, p.ICMPType, p.ICMPCode)
		b = put16(b, p.ICMPSum)
		b = append(b, p.ICMPRest...)
	}
	return append(b, p.Payload...)
}

func fixedBytes(t *rapid.T, n int, label string) Hex {
	return rapid.SliceOfN(rapid.Byte(), n, n).Draw(t, label)
}

// recurringBytes draws n octets that are, in a third of the draws, one of 64 fixed values ("stations" that keep
// turning up over the life of a process, next to thousands of addresses seen once): anything keyed by such a value
// and kept across datagrams (a formatting cache, an interning table) is then revisited after it has been evicted.
func recurringBytes(t *rapid.T, n int, label string) Hex {
	if rapid.IntRange(0, 2).Draw(t, label+"recurring") == 0 {
		idx := rapid.IntRange(0, 63).Draw(t, label+"station")
		b := make([]byte, n)
		for i := range b {
			b[i] = byte(idx*37 + i*11 + n)
		}
		b[0] &^= 1
		return b
	}
	return fixedBytes(t, n, label)
}

// GenL234 draws a sampled header of at most 1500 octets.
func GenL234(t *rapid.T) L234 {
	var p L234
	p.Proto = rapid.SampledFrom([]uint32{1, 1, 1, 11, 12}).Draw(t, "hdrproto")
	switch p.Proto {
	case 1:
		p.DstMAC = recurringBytes(t, 6, "dmac")
		p.SrcMAC = recurringBytes(t, 6, "smac")
		p.HasVlan = rapid.IntRange(0, 2).Draw(t, "hasvlan") == 0
		if p.HasVlan {
			// priority/DEI zero in half of the cases (then the tag control field equals the VLAN id)
			p.TCI = rapid.OneOf(rapid.Uint16Range(0, 0xfff), rapid.Uint16(), rapid.SampledFrom([]uint16{0, 0, 1, 0xfff, 0x1000, 0x2000, 0xe000, 0xefff, 0xf000, 0xffff, 0x8100, 0x0800})).Draw(t, "tci")
		}
		p.IPVer = rapid.SampledFrom([]int{4, 6}).Draw(t, "ipver")
	case 11:
		p.IPVer = 4
	default:
		p.IPVer = 6
	}
	p.L4 = rapid.SampledFrom([]string{"tcp", "udp", "icmp"}).Draw(t, "l4")
	switch p.L4 {
	case "tcp":
		p.L4Proto = 6
	case "udp":
		p.L4Proto = 17
	default:
		p.L4Proto = rapid.SampledFrom([]uint8{1, 58}).Draw(t, "icmpproto")
	}
	if p.IPVer == 4 {
		p.Ver4 = rapid.SampledFrom([]uint8{4, 4, 4, 0, 15, 6}).Draw(t, "ver4")
		p.TOS = rapid.Byte().Draw(t, "tos")
		p.TotalLen = rapid.Uint16().Draw(t, "totallen")
		p.ID = rapid.Uint16().Draw(t, "ipid")
		p.Flags = uint8(rapid.IntRange(0, 7).Draw(t, "ipflags"))
		p.FragOff = rapid.OneOf(rapid.SampledFrom([]uint16{0, 1, 0x1fff, 0x100, 0xff}), rapid.Uint16Range(0, 0x1fff)).Draw(t, "fragoff")
		p.TTL = rapid.Byte().Draw(t, "ttl")
		p.Checksum = rapid.Uint16().Draw(t, "ipsum")
		p.Src = recurringBytes(t, 4, "src4")
		p.Dst = recurringBytes(t, 4, "dst4")
	} else {
		p.Ver6 = rapid.SampledFrom([]uint8{6, 6, 6, 0, 15, 4}).Draw(t, "ver6")
		p.TrafficClass = rapid.Byte().Draw(t, "tclass")
		p.FlowLabel = rapid.OneOf(rapid.SampledFrom([]uint32{0, 1, 0xfffff, 0xf0000}), rapid.Uint32Range(0, 0xfffff)).Draw(t, "flowlabel")
		p.PayloadLen = rapid.Uint16().Draw(t, "payloadlen")
		p.HopLimit = rapid.Byte().Draw(t, "hoplimit")
		p.Src = genV6(t, "src6")
		p.Dst = genV6(t, "dst6")
	}
	switch p.L4 {
	case "tcp":
		p.SrcPort = rapid.Uint16().Draw(t, "sport")
		p.DstPort = rapid.Uint16().Draw(t, "dport")
		p.TCPMid = fixedBytes(t, 8, "tcpmid")
		p.DataOffset = uint8(rapid.IntRange(0, 15).Draw(t, "doff"))
		p.TCPRes = uint8(rapid.IntRange(0, 7).Draw(t, "tcpres"))
		p.TCPFlags = rapid.OneOf(rapid.SampledFrom([]uint16{0, 0x1ff, 0x100, 0x002, 0x012}), rapid.Uint16Range(0, 0x1ff)).Draw(t, "tcpflags")
		p.TCPTail = fixedBytes(t, 6, "tcptail")
	case "udp":
		p.SrcPort = rapid.Uint16().Draw(t, "sport")
		p.DstPort = rapid.Uint16().Draw(t, "dport")
		p.UDPTail = fixedBytes(t, 4, "udptail")
	default:
		p.ICMPType = rapid.Byte().Draw(t, "icmptype")
		p.ICMPCode = rapid.Byte().Draw(t, "icmpcode")
		p.ICMPSum = rapid.Uint16().Draw(t, "icmpsum")
		p.ICMPRest = fixedBytes(t, 4, "icmprest")
	}
	hdr := len(p.Bytes())
	maxPay := 1500 - hdr
	n := rapid.OneOf(rapid.IntRange(0, 7), rapid.IntRange(0, 64), rapid.SampledFrom([]int{maxPay, maxPay - 1, maxPay - 2, maxPay - 3, 128 - hdr%128})).Draw(t, "paylen")
	if n > maxPay {
		n = maxPay
	}
	if n < 0 {
		n = 0
	}
	if n > 64 {
		// long payloads are filler: a short random seed repeated
		seed := rapid.SliceOfN(rapid.Byte(), 1, 8).Draw(t, "payseed")
		p.Payload = make([]byte, n)
		for i := range p.Payload {
			p.Payload[i] = seed[i%len(seed)]
		}
	} else {
		p.Payload = fixedBytes(t, n, "payload")
	}
	return p
}

// GenV6 draws 16 address octets: well-known forms, random octets, and addresses whose eight groups are zero or not
// group by group (several zero runs, equally long ones, runs at either end: where the text form has a choice to make).
func GenV6(t *rapid.T, label string) Hex { return genV6(t, label) }

func genV6(t *rapid.T, label string) Hex {
	switch rapid.IntRange(0, 7).Draw(t, label+"kind") {
	case 5, 6:
		b := make([]byte, 16)
		for g := 0; g < 8; g++ {
			switch rapid.IntRange(0, 3).Draw(t, label+"group") {
			case 0, 1: // zero group
			case 2:
				b[2*g+1] = rapid.SampledFrom([]byte{1, 2, 0x10, 0xff}).Draw(t, label+"low")
			default:
				b[2*g], b[2*g+1] = rapid.Byte().Draw(t, label+"hi"), rapid.Byte().Draw(t, label+"lo")
			}
		}
		return b
	case 0:
		return Hex{0, 0, 0, 0, 0, 0, 0, 0, 0, 0, 0, 0, 0, 0, 0, 1}
	case 1:
		b := make([]byte, 16)
		b[0], b[1] = 0x20, 0x01
		b[15] = rapid.Byte().Draw(t, label+"last")
		return b
	case 2:
		// IPv4-mapped
		b := make([]byte, 16)
		b[10], b[11] = 0xff, 0xff
		copy(b[12:], fixedBytes(t, 4, label+"v4"))
		return b
	}
	return fixedBytes(t, 16, label)
}

// WeirdL4 turns the packet into one the collector has no transport decoder for: another IP protocol number or an
// IPv6 extension-header chain (next header and header-extension length octets chosen from boundary values, the
// rest zeros or the payload as it is). Only for robustness checks: outside C07's domain (TCP/UDP/ICMP).
// WeirdL2 turns the packet into an Ethernet frame with a stack of 1..15 VLAN tags, in half of the draws cut right
// behind the last tag. Only for robustness checks (the collector decodes a single tag).
func WeirdL2(t *rapid.T, p *L234) {
	p.Proto, p.HasVlan = 1, true
	if len(p.DstMAC) != 6 {
		p.DstMAC, p.SrcMAC = Hex{2, 0, 0, 0, 0, 1}, Hex{2, 0, 0, 0, 0, 2}
	}
	for i, n := 0, rapid.IntRange(1, 15).Draw(t, "ntags"); i < n; i++ {
		tpid := rapid.SampledFrom([]uint32{0x8100, 0x8100, 0x88a8, 0x9100}).Draw(t, "tpid")
		p.StackTags = append(p.StackTags, tpid<<16|uint32(rapid.Uint16().Draw(t, "stci")))
	}
	p.CutAtL2 = rapid.Bool().Draw(t, "cutatl2")
}

func WeirdL4(t *rapid.T, p *L234) {
	ext := []uint8{0, 43, 44, 60, 51, 135, 139, 140}
	if p.IPVer == 6 && rapid.IntRange(0, 2).Draw(t, "extchain") > 0 {
		p.L4Proto = rapid.SampledFrom(ext).Draw(t, "exthdr")
		// the first two octets of the L4 region are "next header" and "header extension length"
		nh := rapid.SampledFrom(append(append([]uint8{}, ext...), 6, 17, 58, 59, 255)).Draw(t, "extnext")
		hl := rapid.SampledFrom([]uint8{0, 0, 1, 2, 30, 31, 32, 63, 127, 255}).Draw(t, "extlen")
		p.L4 = "udp"
		p.SrcPort = uint16(nh)<<8 | uint16(hl)
		if rapid.Bool().Draw(t, "extzeros") {
			for i := range p.Payload {
				p.Payload[i] = 0
			}
			p.UDPTail = Hex{0, 0, 0, 0}
			p.DstPort = 0
		}
		return
	}
	p.L4Proto = rapid.SampledFrom([]uint8{0, 2, 4, 41, 47, 50, 51, 89, 132, 255}).Draw(t, "otherproto")
}
