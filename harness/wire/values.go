// Package wire holds the wire-format builders, the reference interpretation
// (written from RFC 7011 / RFC 3954 / NetFlow v5 / sFlow v5, never by calling
// vflow's decoders) and the rapid generators shared by the property checks.
package wire

import (
	"encoding/binary"
	"encoding/hex"
	"encoding/json"
	"fmt"
	"math"
	"net"
	"sort"

	"github.com/EdgeCast/vflow/ipfix"
	"pgregory.net/rapid"
)

// Hex is a byte string that is written as a hex string in JSON (cases, samples, replay files).
type Hex []byte

func (h Hex) MarshalJSON() ([]byte, error) { return json.Marshal(hex.EncodeToString(h)) }
func (h *Hex) UnmarshalJSON(b []byte) error {
	var s string
	if err := json.Unmarshal(b, &s); err != nil {
		return err
	}
	d, err := hex.DecodeString(s)
	if err != nil {
		return err
	}
	*h = d
	return nil
}

// Abstract data types (RFC 5102 section 3.1); numbering equals ipfix.FieldType's so that a
// type taken from the live information model can be stored in a case.
const (
	TUnknown = iota
	TUint8
	TUint16
	TUint32
	TUint64
	TInt8
	TInt16
	TInt32
	TInt64
	TFloat32
	TFloat64
	TBoolean
	TMac
	TOctetArray
	TString
	TDateSec
	TDateMilli
	TDateMicro
	TDateNano
	TIPv4
	TIPv6
	numTypes
)

var typeNames = [...]string{"unknown", "unsigned8", "unsigned16", "unsigned32", "unsigned64", "signed8", "signed16", "signed32",
	"signed64", "float32", "float64", "boolean", "macAddress", "octetArray", "string", "dateTimeSeconds", "dateTimeMilliseconds",
	"dateTimeMicroseconds", "dateTimeNanoseconds", "ipv4Address", "ipv6Address"}

func TypeName(t int) string {
	if t >= 0 && t < len(typeNames) {
		return typeNames[t]
	}
	return fmt.Sprintf("type%d", t)
}

// NaturalSize is the size of the abstract type's full encoding; 0 = no fixed size (string, octetArray, unknown).
func NaturalSize(t int) int {
	switch t {
	case TUint8, TInt8, TBoolean:
		return 1
	case TUint16, TInt16:
		return 2
	case TUint32, TInt32, TFloat32, TDateSec, TIPv4:
		return 4
	case TUint64, TInt64, TFloat64, TDateMilli, TDateMicro, TDateNano:
		return 8
	case TMac:
		return 6
	case TIPv6:
		return 16
	}
	return 0
}

func IsVarType(t int) bool { return t == TString || t == TOctetArray }

// Canon is the canonical form of a decoded value: (kind, exact value).
// kinds: uint int f32 f64 bool text ip mac octets
type Canon struct {
	K string `json:"k"`
	U uint64 `json:"u,omitempty"` // uint value; f32/f64 bit pattern; bool 0/1
	I int64  `json:"i,omitempty"`
	S string `json:"s,omitempty"`
	O Hex    `json:"o,omitempty"`
}

func (c Canon) String() string {
	switch c.K {
	case "uint", "bool":
		return fmt.Sprintf("%s:%d", c.K, c.U)
	case "int":
		return fmt.Sprintf("int:%d", c.I)
	case "f32", "f64":
		return fmt.Sprintf("%s:bits=%#x", c.K, c.U)
	case "text":
		return fmt.Sprintf("text:%q", c.S)
	}
	return fmt.Sprintf("%s:%x", c.K, []byte(c.O))
}

func (c Canon) Equal(d Canon) bool {
	return c.K == d.K && c.U == d.U && c.I == d.I && c.S == d.S && string(c.O) == string(d.O)
}

// Interpret is the reference interpretation of a field's octets under an abstract data type:
// big-endian, and raw octets when the field is encoded shorter than the type's size.
func Interpret(t int, b []byte) Canon {
	n := NaturalSize(t)
	if n > 0 && len(b) < n {
		return Canon{K: "octets", O: append(Hex{}, b...)}
	}
	be := func(k int) uint64 {
		var v uint64
		for _, x := range b[:k] {
			v = v<<8 | uint64(x)
		}
		return v
	}
	switch t {
	case TUint8:
		return Canon{K: "uint", U: be(1)}
	case TUint16:
		return Canon{K: "uint", U: be(2)}
	case TUint32, TDateSec:
		return Canon{K: "uint", U: be(4)}
	case TUint64, TDateMilli, TDateMicro, TDateNano:
		return Canon{K: "uint", U: be(8)}
	case TInt8:
		return Canon{K: "int", I: int64(int8(be(1)))}
	case TInt16:
		return Canon{K: "int", I: int64(int16(be(2)))}
	case TInt32:
		return Canon{K: "int", I: int64(int32(be(4)))}
	case TInt64:
		return Canon{K: "int", I: int64(be(8))}
	case TFloat32:
		return Canon{K: "f32", U: be(4)}
	case TFloat64:
		return Canon{K: "f64", U: be(8)}
	case TBoolean:
		// RFC 7011 6.1.5: 1 = true, 2 = false
		if b[0] == 1 {
			return Canon{K: "bool", U: 1}
		}
		return Canon{K: "bool", U: 0}
	case TMac:
		return Canon{K: "mac", O: append(Hex{}, b...)}
	case TIPv4, TIPv6:
		return Canon{K: "ip", O: append(Hex{}, b...)}
	case TString:
		return Canon{K: "text", S: string(b)}
	}
	return Canon{K: "octets", O: append(Hex{}, b...)}
}

// CanonOf maps a Go value produced by the decoders to its canonical form.
func CanonOf(v interface{}) (Canon, error) {
	switch x := v.(type) {
	case uint8:
		return Canon{K: "uint", U: uint64(x)}, nil
	case uint16:
		return Canon{K: "uint", U: uint64(x)}, nil
	case uint32:
		return Canon{K: "uint", U: uint64(x)}, nil
	case uint64:
		return Canon{K: "uint", U: x}, nil
	case uint:
		return Canon{K: "uint", U: uint64(x)}, nil
	case int8:
		return Canon{K: "int", I: int64(x)}, nil
	case int16:
		return Canon{K: "int", I: int64(x)}, nil
	case int32:
		return Canon{K: "int", I: int64(x)}, nil
	case int64:
		return Canon{K: "int", I: x}, nil
	case int:
		return Canon{K: "int", I: int64(x)}, nil
	case float32:
		return Canon{K: "f32", U: uint64(math.Float32bits(x))}, nil
	case float64:
		return Canon{K: "f64", U: math.Float64bits(x)}, nil
	case bool:
		if x {
			return Canon{K: "bool", U: 1}, nil
		}
		return Canon{K: "bool", U: 0}, nil
	case string:
		return Canon{K: "text", S: x}, nil
	case net.IP:
		return Canon{K: "ip", O: append(Hex{}, x...)}, nil
	case net.HardwareAddr:
		return Canon{K: "mac", O: append(Hex{}, x...)}, nil
	case []byte:
		return Canon{K: "octets", O: append(Hex{}, x...)}, nil
	}
	return Canon{}, fmt.Errorf("value of unexpected Go type %T", v)
}

// ---------------------------------------------------------------- element table

// Elem is one information element as seen in the live model at generation time.
type Elem struct {
	PEN  uint32
	ID   uint16
	Type int
}

// EnterprisePENs are the private enterprise numbers the harness populates the model with
// (the built-in table has no enterprise entries; the loader supports them).
var EnterprisePENs = []uint32{9, 29305, 0xFFFFFFFF}

// InstallEnterprise adds enterprise-specific elements to the live information model:
// for each PEN one element per abstract data type (ids 1..20), plus element id 0 and id 0x7fff.
func InstallEnterprise() {
	for _, pen := range EnterprisePENs {
		for t := 1; t < numTypes; t++ {
			ipfix.InfoModel[ipfix.ElementKey{EnterpriseNo: pen, ElementID: uint16(t)}] =
				ipfix.InfoElementEntry{FieldID: uint16(t), Name: fmt.Sprintf("verifEnt%d_%s", pen, typeNames[t]), Type: ipfix.FieldType(t)}
		}
		ipfix.InfoModel[ipfix.ElementKey{EnterpriseNo: pen, ElementID: 0}] =
			ipfix.InfoElementEntry{FieldID: 0, Name: "verifEntZero", Type: ipfix.Uint32}
		ipfix.InfoModel[ipfix.ElementKey{EnterpriseNo: pen, ElementID: 0x7fff}] =
			ipfix.InfoElementEntry{FieldID: 0x7fff, Name: "verifEntMax", Type: ipfix.String}
	}
}

// Elements returns a sorted snapshot of the live information model.
func Elements() []Elem {
	out := make([]Elem, 0, len(ipfix.InfoModel))
	for k, e := range ipfix.InfoModel {
		out = append(out, Elem{PEN: k.EnterpriseNo, ID: k.ElementID, Type: int(e.Type)})
	}
	sort.Slice(out, func(i, j int) bool {
		if out[i].PEN != out[j].PEN {
			return out[i].PEN < out[j].PEN
		}
		return out[i].ID < out[j].ID
	})
	return out
}

// ElementsByType groups a snapshot by abstract type (index = type), IANA and enterprise separately.
func ElementsByType(all []Elem, enterprise bool) [][]Elem {
	out := make([][]Elem, numTypes)
	for _, e := range all {
		if (e.PEN != 0) != enterprise || e.Type < 0 || e.Type >= numTypes {
			continue
		}
		out[e.Type] = append(out[e.Type], e)
	}
	return out
}

// ---------------------------------------------------------------- value generators (boundary-biased)

var hostileStrings = []string{
	"", "a", "plain text", `"`, `\`, `"quoted"`, `back\slash`, "tab\there", "nl\nline", "\x00", "\x01\x1f", "\x7f",
	"%d%s%v%!", "%", "100%", "é", "日本", "\xff", "\xc3", "\xed\xa0\x80", "a\xffb", "</script>", " ", "{}[],:", "null", "\r\n",
}

// GenValue draws the octets of one field of abstract type t encoded in n octets.
func GenValue(t *rapid.T, typ int, n int) []byte {
	if n == 0 {
		return []byte{}
	}
	nat := NaturalSize(typ)
	if nat == 0 || n != nat {
		if typ == TString {
			s := rapid.OneOf(
				rapid.SampledFrom(hostileStrings),
				// printable text with exactly one awkward octet (an encoder that special-cases "plain" strings
				// must classify every single octet correctly; a string full of awkward octets masks that)
				rapid.Custom(func(t *rapid.T) string {
					b := []byte("GigabitEthernet0/1 uplink to core, vlan 100; description text")
					if n < len(b) {
						b = b[:n]
					}
					if len(b) > 0 {
						c := rapid.OneOf(rapid.ByteRange(0, 0x20), rapid.SampledFrom([]byte{0x7f, 0x80, 0xff, '"', '\\', '/', '<', '&'}), rapid.Byte()).Draw(t, "awkward")
						b[rapid.IntRange(0, len(b)-1).Draw(t, "awkwardpos")] = c
					}
					return string(b)
				}),
				rapid.StringN(0, n, n),
				rapid.Map(rapid.SliceOfN(rapid.Byte(), n, n), func(b []byte) string { return string(b) }),
			).Draw(t, "str")
			b := []byte(s)
			for len(b) < n {
				b = append(b, byte(rapid.SampledFrom([]byte{' ', 'x', '"', '\\', 0, 0xff, '%'}).Draw(t, "fill")))
			}
			return b[:n]
		}
		return rapid.SliceOfN(rapid.Byte(), n, n).Draw(t, "octets")
	}
	switch typ {
	case TBoolean:
		return []byte{rapid.SampledFrom([]byte{1, 2}).Draw(t, "bool")}
	case TFloat32:
		bits := rapid.OneOf(
			rapid.SampledFrom([]uint32{0, 0x80000000, 0x7f800000, 0xff800000, 0x7fc00000, 0x7f800001, 0x00000001, 0x007fffff, 0x3f800000, 0x7f7fffff, 0xc0490fdb}),
			rapid.Uint32(),
		).Draw(t, "f32")
		b := make([]byte, 4)
		binary.BigEndian.PutUint32(b, bits)
		return b
	case TFloat64:
		bits := rapid.OneOf(
			rapid.SampledFrom([]uint64{0, 0x8000000000000000, 0x7ff0000000000000, 0xfff0000000000000, 0x7ff8000000000000, 0x7ff0000000000001, 1, 0x000fffffffffffff, 0x3ff0000000000000, 0x7fefffffffffffff, 0x400921fb54442d18}),
			rapid.Uint64(),
		).Draw(t, "f64")
		b := make([]byte, 8)
		binary.BigEndian.PutUint64(b, bits)
		return b
	}
	if typ == TIPv6 && n == 16 && rapid.Bool().Draw(t, "v6shape") {
		return genV6(t, "v6")
	}
	// integers, dates, addresses: boundary-biased octets
	kind := rapid.IntRange(0, 5).Draw(t, "vkind")
	b := make([]byte, n)
	switch kind {
	case 0: // zero
	case 1:
		b[n-1] = 1
	case 2:
		for i := range b {
			b[i] = 0xff
		}
	case 3:
		b[0] = 0x80
	case 4:
		b[0] = 0x7f
		for i := 1; i < n; i++ {
			b[i] = 0xff
		}
	default:
		copy(b, rapid.SliceOfN(rapid.Byte(), n, n).Draw(t, "octets"))
	}
	return b
}
