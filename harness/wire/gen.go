package wire

import (
	"net"

	"pgregory.net/rapid"
)

// GenEnv carries the element snapshot used by the generators.
type GenEnv struct {
	Proto string
	// NoEnterprise restricts field specifiers to IANA elements (for checks whose code under test runs in
	// another process, where the harness's enterprise elements are not installed).
	NoEnterprise bool
	// Missing: IANA element ids that are not part of the information model in force (default: ids no table knows)
	Missing []int
	// OffSpecLengths: fixed-size types are sometimes declared LONGER than their natural size (outside RFC 7011,
	// but accepted by the decoders): only for checks whose oracle does not interpret the octets itself
	OffSpecLengths bool
	// Big switches on the large shapes: fixed-length fields of 255..9000 octets (one per template), templates with
	// 31..300 fields, data sets with 31..300 short records, messages with 31..100 small data sets, variable-length
	// values of 1000..8192 octets. Only for checks whose runner treats a message that does not fit a datagram as
	// outside the domain and whose oracle does not need every message to fit a 1500-octet receive buffer.
	Big     bool
	iana    [][]Elem // by type
	ent     [][]Elem
	ianaAll []Elem
}

func NewGenEnv(proto string) *GenEnv { return NewGenEnvFrom(proto, Elements()) }

// MissingIDs lists element ids a template can name that the information model does not hold.
func (e *GenEnv) MissingIDs() []int {
	if len(e.Missing) > 0 {
		return e.Missing
	}
	if e.Proto == "nf9" {
		// NetFlow v9 field types are plain 16-bit numbers: the upper half (vendor types such as 33000..) is as unknown
		// to the model as any other id it does not list
		return []int{434, 500, 9999, 32767, 32768, 33000, 40000, 65535}
	}
	return []int{434, 500, 9999, 32767}
}

// NewGenEnvFrom builds the generator environment from an element list of the caller's (e.g. a registry snapshot)
// instead of the live information model.
func NewGenEnvFrom(proto string, all []Elem) *GenEnv {
	e := &GenEnv{Proto: proto, iana: ElementsByType(all, false), ent: ElementsByType(all, true)}
	for _, x := range all {
		if x.PEN == 0 {
			e.ianaAll = append(e.ianaAll, x)
		}
	}
	return e
}

var fieldTypesPool = []int{TUint8, TUint16, TUint32, TUint64, TInt8, TInt16, TInt32, TInt64, TFloat32, TFloat64, TBoolean, TMac,
	TOctetArray, TString, TDateSec, TDateMilli, TDateMicro, TDateNano, TIPv4, TIPv6, TUnknown}

// GenField draws one field specifier.
func (e *GenEnv) GenField(t *rapid.T) Field {
	var el Elem
	useEnt := e.Proto == "ipfix" && !e.NoEnterprise && rapid.IntRange(0, 3).Draw(t, "ent") == 0
	// pick by type first (so rare types are as likely as unsigned32), fall back to any IANA element
	typ := rapid.SampledFrom(fieldTypesPool).Draw(t, "ftype")
	pool := e.iana[typ]
	if useEnt && len(e.ent[typ]) > 0 {
		pool = e.ent[typ]
	}
	if len(pool) == 0 {
		pool = e.ianaAll
	}
	el = pool[rapid.IntRange(0, len(pool)-1).Draw(t, "elem")]
	if useEnt && el.PEN != 0 && rapid.IntRange(0, 7).Draw(t, "entspecial") == 0 {
		// element id 0 / 0x7fff under the enterprise bit
		sp := []uint16{0, 0x7fff}[rapid.IntRange(0, 1).Draw(t, "sp")]
		for _, x := range e.ent[TUint32] {
			if x.PEN == el.PEN && x.ID == sp {
				el = x
			}
		}
		for _, x := range e.ent[TString] {
			if x.PEN == el.PEN && x.ID == sp {
				el = x
			}
		}
	}
	f := Field{PEN: el.PEN, ID: el.ID, Type: el.Type}
	nat := NaturalSize(el.Type)
	switch {
	case nat > 0 && e.OffSpecLengths && rapid.IntRange(0, 7).Draw(t, "offspec") == 0:
		f.Len = uint16(nat + rapid.SampledFrom([]int{1, 1, 2, 3, 4, 8, 12, 16}).Draw(t, "offspecextra"))
	case nat > 0:
		if rapid.IntRange(0, 9).Draw(t, "reduced") == 0 {
			f.Len = uint16(rapid.IntRange(0, nat-1).Draw(t, "rlen"))
		} else {
			f.Len = uint16(nat)
		}
	case IsVarType(el.Type) && e.Proto == "ipfix" && rapid.IntRange(0, 1).Draw(t, "var") == 0:
		f.Len = VarLen
	default:
		f.Len = uint16(rapid.OneOf(rapid.IntRange(0, 8), rapid.IntRange(0, 40)).Draw(t, "flen"))
		if e.Big && rapid.IntRange(0, 23).Draw(t, "longfield") == 0 {
			// long fixed-length octet/string fields (packet sections, descriptions): lengths around the 8-, 12-
			// and 13-bit marks
			f.Len = uint16(rapid.SampledFrom([]int{255, 256, 257, 1000, 4095, 4096, 4097, 5000, 8191, 8192, 9000}).Draw(t, "longlen"))
		}
	}
	return f
}

// GenTemplate draws a template with the given id whose shortest record is at least one octet.
func (e *GenEnv) GenTemplate(t *rapid.T, id uint16) Template {
	tp := Template{ID: id}
	tp.Options = rapid.IntRange(0, 3).Draw(t, "options") == 0
	nf := rapid.OneOf(rapid.IntRange(1, 3), rapid.IntRange(1, 12)).Draw(t, "nfields")
	if e.Big && rapid.IntRange(0, 39).Draw(t, "manyfields") == 0 {
		// many fields: counts around the 6-, 7-, 8- and 9-bit marks
		nf = rapid.SampledFrom([]int{31, 32, 33, 63, 64, 65, 127, 128, 129, 255, 256, 257, 300}).Draw(t, "nmanyfields")
	}
	if tp.Options {
		lo := 1
		if e.Proto == "nf9" {
			lo = 0
		}
		ns := rapid.IntRange(lo, 3).Draw(t, "nscope")
		for i := 0; i < ns; i++ {
			tp.Scope = append(tp.Scope, e.GenField(t))
		}
		nf = rapid.IntRange(0, 6).Draw(t, "nopts")
		if ns == 0 && nf == 0 {
			nf = 1
		}
	}
	for i := 0; i < nf; i++ {
		tp.Fields = append(tp.Fields, e.GenField(t))
	}
	// at most one long field per template (a record stays below ~10 KB, so that a few records, sets and the
	// announcement still fit one datagram)
	long := false
	for _, fs := range [][]Field{tp.Scope, tp.Fields} {
		for i := range fs {
			if fs[i].Len != VarLen && fs[i].Len > 200 {
				if long {
					fs[i].Len = uint16(1 + int(fs[i].Len)%40)
				}
				long = true
			}
		}
	}
	if tp.MinRecordLen() == 0 {
		// a zero-octet record cannot be delimited on the wire: give the first field its natural size (or 1)
		fs := tp.Fields
		if len(tp.Scope) > 0 {
			fs = tp.Scope
		}
		n := NaturalSize(fs[0].Type)
		if n == 0 {
			n = 1
		}
		fs[0].Len = uint16(n)
	}
	return tp
}

var templateIDs = []uint16{256, 257, 258, 259, 300, 1000, 4096, 32768, 65534, 65535}

func GenTemplateID(t *rapid.T) uint16 {
	return rapid.OneOf(rapid.SampledFrom(templateIDs), rapid.Uint16Range(256, 65535)).Draw(t, "tplid")
}

// GenRecord draws the octets of one record.
func GenRecord(t *rapid.T, tp *Template) Record { return genRecord(t, tp, false) }

func genRecord(t *rapid.T, tp *Template, big bool) Record {
	var r Record
	hasVar := false
	for _, f := range tp.All() {
		n := int(f.Len)
		long := false
		if f.Len == VarLen {
			hasVar = true
			n = rapid.OneOf(rapid.IntRange(0, 12), rapid.SampledFrom([]int{0, 1, 254, 255, 256, 300}), rapid.IntRange(0, 64)).Draw(t, "vlen")
			if big && rapid.IntRange(0, 99).Draw(t, "vlong") == 0 {
				n = rapid.SampledFrom([]int{1000, 4095, 4096, 4097, 8192}).Draw(t, "vlonglen")
			}
			long = rapid.IntRange(0, 2).Draw(t, "long") == 0
		}
		r.Vals = append(r.Vals, GenValue(t, f.Type, n))
		r.Long = append(r.Long, long)
	}
	if !hasVar {
		r.Long = nil
	}
	return r
}

// GenDataSet draws a data set of 1..maxRecs records with RFC-conformant padding
// (shorter than the shortest record; at most 7 octets for IPFIX, 3 for NetFlow v9).
func (e *GenEnv) GenDataSet(t *rapid.T, tp *Template, maxRecs int) Set {
	s := Set{Kind: "data", Tpl: tp}
	n := rapid.OneOf(rapid.IntRange(1, 3), rapid.IntRange(1, maxRecs)).Draw(t, "nrecs")
	if e.Big && maxRecs >= 3 && tp.MinRecordLen() <= 24 && rapid.IntRange(0, 39).Draw(t, "manyrecs") == 0 {
		// many short records: counts around the 6-, 8- and 9-bit marks
		n = rapid.SampledFrom([]int{31, 32, 33, 63, 64, 65, 127, 128, 255, 256, 257, 300}).Draw(t, "nmanyrecs")
	}
	// records of templates with a long field: no more than fit into ~12 KB per set
	for rl := tp.MinRecordLen(); n > 1 && n*rl > 12000; {
		n--
	}
	for i := 0; i < n; i++ {
		s.Recs = append(s.Recs, genRecord(t, tp, e.Big))
	}
	maxPad := 7
	if e.Proto == "nf9" {
		maxPad = 3
	}
	if m := tp.MinRecordLen() - 1; m < maxPad {
		maxPad = m
	}
	if maxPad > 0 && rapid.IntRange(0, 1).Draw(t, "padded") == 1 {
		s.Pad = rapid.IntRange(1, maxPad).Draw(t, "pad")
	}
	return s
}

// GenTemplateSets groups templates into template / options-template sets (1..3 records per set).
func (e *GenEnv) GenTemplateSets(t *rapid.T, tps []Template) []Set {
	var sets []Set
	for i := 0; i < len(tps); {
		kind := "tpl"
		if tps[i].Options {
			kind = "opt"
		}
		s := Set{Kind: kind, Tpls: []Template{tps[i]}}
		i++
		for i < len(tps) && tps[i].Options == (kind == "opt") && len(s.Tpls) < 3 && rapid.IntRange(0, 1).Draw(t, "join") == 1 {
			s.Tpls = append(s.Tpls, tps[i])
			i++
		}
		maxPad := 7
		if e.Proto == "nf9" {
			maxPad = 3
		}
		if rapid.IntRange(0, 2).Draw(t, "tplpadded") == 0 {
			s.Pad = rapid.IntRange(1, maxPad).Draw(t, "tplpad")
		}
		sets = append(sets, s)
	}
	return sets
}

func (e *GenEnv) GenHeader(t *rapid.T, m *Msg) {
	u32 := rapid.OneOf(rapid.SampledFrom([]uint32{0, 1, 0x7fffffff, 0x80000000, 0xffffffff}), rapid.Uint32())
	m.Proto = e.Proto
	m.Time = u32.Draw(t, "time")
	m.Seq = u32.Draw(t, "seq")
	m.Domain = u32.Draw(t, "domain")
	if e.Proto == "nf9" {
		m.Count = rapid.Uint16().Draw(t, "count")
		m.SysUpTime = u32.Draw(t, "uptime")
	}
}

// Scenario is a well-formed exchange: announcement messages followed by the message under test.
// Templates used by Main's data sets are announced either in Pre or earlier in Main itself.
type Scenario struct {
	Exporter Hex   `json:"exporter"` // 4 or 16 octets
	Pre      []Msg `json:"pre,omitempty"`
	Main     Msg   `json:"main"`
}

// GenScenario draws a well-formed scenario with 1..maxSets data sets in Main.
func (e *GenEnv) GenScenario(t *rapid.T, maxSets, maxRecs int) Scenario {
	var sc Scenario
	sc.Exporter = GenExporter(t)
	ntp := rapid.IntRange(1, 3).Draw(t, "ntemplates")
	used := map[uint16]bool{}
	var pre, inmsg []Template
	for i := 0; i < ntp; i++ {
		id := GenTemplateID(t)
		for used[id] {
			id++
			if id < 256 {
				id = 256
			}
		}
		used[id] = true
		tp := e.GenTemplate(t, id)
		if rapid.IntRange(0, 1).Draw(t, "inmsg") == 1 {
			inmsg = append(inmsg, tp)
		} else {
			pre = append(pre, tp)
		}
	}
	if len(pre) > 0 {
		// sometimes an older, different definition of the pre-announced templates was announced before
		if rapid.IntRange(0, 3).Draw(t, "superseded") == 0 {
			var old []Template
			for i := range pre {
				if rapid.Bool().Draw(t, "oldotherlen") {
					o := RedefineOtherLengths(t, &pre[i])
					if e.Proto == "nf9" {
						for k := range o.Fields {
							if o.Fields[k].Len == VarLen {
								o.Fields[k].Len = 2
							}
						}
						for k := range o.Scope {
							if o.Scope[k].Len == VarLen {
								o.Scope[k].Len = 2
							}
						}
					}
					old = append(old, o)
				} else {
					old = append(old, e.GenTemplate(t, pre[i].ID))
				}
			}
			var m0 Msg
			e.GenHeader(t, &m0)
			m0.Sets = e.GenTemplateSets(t, old)
			sc.Pre = append(sc.Pre, m0)
		}
		var m Msg
		e.GenHeader(t, &m)
		m.Sets = e.GenTemplateSets(t, pre)
		sc.Pre = append(sc.Pre, m)
	}
	e.GenHeader(t, &sc.Main)
	// Main: in-message template sets come first or are interleaved; a data set may only follow its template
	avail := append([]Template{}, pre...)
	pending := e.GenTemplateSets(t, inmsg)
	nsets := rapid.OneOf(rapid.IntRange(1, 2), rapid.IntRange(1, maxSets)).Draw(t, "ndatasets")
	recsPerSet := maxRecs
	if e.Big && maxSets >= 3 && rapid.IntRange(0, 39).Draw(t, "manysets") == 0 {
		// many small data sets in one message: counts around the 5-, 6- and 7-bit marks
		nsets = rapid.SampledFrom([]int{31, 32, 33, 63, 64, 65, 100}).Draw(t, "nmanysets")
		recsPerSet = 2
	}
	for i := 0; i < nsets; {
		if len(pending) > 0 && (len(avail) == 0 || rapid.IntRange(0, 1).Draw(t, "announce") == 1) {
			s := pending[0]
			pending = pending[1:]
			sc.Main.Sets = append(sc.Main.Sets, s)
			avail = append(avail, s.Tpls...)
			continue
		}
		tp := avail[rapid.IntRange(0, len(avail)-1).Draw(t, "which")]
		tpc := tp
		sc.Main.Sets = append(sc.Main.Sets, e.GenDataSet(t, &tpc, recsPerSet))
		i++
	}
	// remaining announcements may trail the data
	for _, s := range pending {
		if rapid.IntRange(0, 1).Draw(t, "trail") == 1 {
			sc.Main.Sets = append(sc.Main.Sets, s)
		}
	}
	return sc
}

// ---------------------------------------------------------------- exporter addresses

var exporterPool = []net.IP{
	net.IPv4(127, 0, 0, 1).To4(), net.IPv4(10, 1, 2, 3).To4(), net.IPv4(192, 0, 2, 55).To4(), net.IPv4(255, 255, 255, 255).To4(),
	net.IPv4(0, 0, 0, 0).To4(),
	net.IPv4(127, 0, 0, 1).To16(), net.IPv4(10, 1, 2, 4).To16(), net.IPv4(198, 51, 100, 7).To16(),
	net.ParseIP("::1"), net.ParseIP("2001:db8::1"), net.ParseIP("fe80::a:b:c:d"), net.ParseIP("2001:db8:ffff:ffff:ffff:ffff:ffff:ffff"),
	// relatives of the IPv4 addresses above: IPv6 addresses that begin with the same four octets (rest zero),
	// IPv4-compatible and NAT64 forms, the unspecified address — anything that shortens, pads or re-renders an
	// address confuses some pair of these
	{10, 1, 2, 3, 0, 0, 0, 0, 0, 0, 0, 0, 0, 0, 0, 0}, {127, 0, 0, 1, 0, 0, 0, 0, 0, 0, 0, 0, 0, 0, 0, 0},
	net.ParseIP("::"), net.ParseIP("::10.1.2.3"), net.ParseIP("64:ff9b::10.1.2.3"), net.ParseIP("::ffff:0:0"),
}

// GenExporter draws an exporter address: 4-octet IPv4, 16-octet IPv4-mapped or IPv6.
// The slice has cap == len, as ReadFromUDP delivers it.
func GenExporter(t *rapid.T) Hex {
	var ip []byte
	switch rapid.IntRange(0, 3).Draw(t, "addrkind") {
	case 0:
		ip = exporterPool[rapid.IntRange(0, len(exporterPool)-1).Draw(t, "pool")]
	case 1:
		ip = rapid.SliceOfN(rapid.Byte(), 4, 4).Draw(t, "v4")
	case 2:
		v4 := rapid.SliceOfN(rapid.Byte(), 4, 4).Draw(t, "v4m")
		ip = net.IPv4(v4[0], v4[1], v4[2], v4[3]).To16()
	default:
		ip = rapid.SliceOfN(rapid.Byte(), 16, 16).Draw(t, "v6")
	}
	out := make([]byte, len(ip))
	copy(out, ip)
	return out
}

// ExactIP returns a copy of the address with cap == len.
func ExactIP(h Hex) net.IP {
	out := make([]byte, len(h))
	copy(out, h)
	return net.IP(out[:len(h):len(h)])
}

// RedefineOtherLengths keeps the elements (ids, enterprise numbers, order) and changes only field lengths:
// a cache that compares announcements by element only would take it for a refresh.
func RedefineOtherLengths(t *rapid.T, cur *Template) Template {
	tp := Template{ID: cur.ID, Options: cur.Options}
	chg := func(fs []Field) []Field {
		var out []Field
		for _, f := range fs {
			nf := f
			nat := NaturalSize(f.Type)
			switch {
			case f.Len == VarLen:
				nf.Len = uint16(rapid.IntRange(1, 12).Draw(t, "fixlen"))
			case nat == 0:
				nf.Len = uint16(rapid.IntRange(0, 24).Draw(t, "otherlen"))
				if IsVarType(f.Type) && rapid.IntRange(0, 3).Draw(t, "tovar") == 0 {
					nf.Len = VarLen
				}
			case int(f.Len) == nat:
				nf.Len = uint16(rapid.IntRange(0, nat-1).Draw(t, "reducedlen"))
			default:
				nf.Len = uint16(nat)
			}
			out = append(out, nf)
		}
		return out
	}
	tp.Scope = chg(cur.Scope)
	tp.Fields = chg(cur.Fields)
	if tp.MinRecordLen() == 0 {
		fs := tp.Fields
		if len(tp.Scope) > 0 {
			fs = tp.Scope
		}
		n := NaturalSize(fs[0].Type)
		if n == 0 {
			n = 1
		}
		fs[0].Len = uint16(n)
	}
	return tp
}

// RetouchTemplate returns tp with exactly one field specifier changed: a scope field (scope == true and tp has scope
// fields) or an ordinary field names another IANA element of the same abstract type at the same length. Counts, lengths,
// order and every other specifier stay, so records encoded for tp are well-formed under the result too.
func RetouchTemplate(tp *Template, scope bool, a int) (Template, bool) {
	out := Template{ID: tp.ID, Options: tp.Options, Scope: append([]Field{}, tp.Scope...), Fields: append([]Field{}, tp.Fields...)}
	used := map[[2]uint32]bool{}
	for _, f := range tp.All() {
		used[[2]uint32{f.PEN, uint32(f.ID)}] = true
	}
	fs := out.Fields
	if scope && len(out.Scope) > 0 {
		fs = out.Scope
	}
	if len(fs) == 0 {
		return out, false
	}
	if a < 0 {
		a = -a
	}
	all := Elements()
	for j := 0; j < len(fs); j++ {
		i := (a + j) % len(fs)
		for k := 0; k < len(all); k++ {
			e := all[(a+k)%len(all)]
			if e.PEN == 0 && e.Type == fs[i].Type && !used[[2]uint32{0, uint32(e.ID)}] && fs[i].PEN == 0 {
				fs[i].ID = e.ID
				return out, true
			}
		}
	}
	return out, false
}
