package wire

import (
	"encoding/binary"
	"fmt"
)

// Template-based protocols: IPFIX (RFC 7011) and NetFlow v9 (RFC 3954).

const VarLen = 65535

// Field is one field specifier of a template. Type is the abstract type the element has in the
// information model at generation time (stored so that a replayed case is self-contained).
type Field struct {
	PEN  uint32 `json:"pen,omitempty"`
	ID   uint16 `json:"id"`
	Len  uint16 `json:"len"` // VarLen = variable length (IPFIX string/octetArray only)
	Type int    `json:"type"`
}

type Template struct {
	ID      uint16  `json:"id"`
	Options bool    `json:"options,omitempty"`
	Scope   []Field `json:"scope,omitempty"`
	Fields  []Field `json:"fields"`
}

func (tp *Template) All() []Field {
	out := make([]Field, 0, len(tp.Scope)+len(tp.Fields))
	out = append(out, tp.Scope...)
	return append(out, tp.Fields...)
}

// MinRecordLen is the length of the shortest record the template can describe.
func (tp *Template) MinRecordLen() int {
	n := 0
	for _, f := range tp.All() {
		if f.Len == VarLen {
			n++
		} else {
			n += int(f.Len)
		}
	}
	return n
}

// Record holds the octets of every field (scope fields first). Long[i] selects the 3-octet
// variable-length prefix (0xFF + 2 octets) for variable-length field i even when the value is short.
type Record struct {
	Vals []Hex  `json:"vals"`
	Long []bool `json:"long,omitempty"`
}

// Set is one set / flowset of a message.
type Set struct {
	Kind string     `json:"kind"`           // "tpl" | "opt" | "data" | "raw"
	Tpls []Template `json:"tpls,omitempty"` // tpl / opt: the template records of the set
	Tpl  *Template  `json:"tpl,omitempty"`  // data: the template the records are encoded under
	Recs []Record   `json:"recs,omitempty"` // data
	Pad  int        `json:"pad,omitempty"`  // zero octets of padding at the end of the set

	RawID   uint16 `json:"raw_id,omitempty"` // raw: set id and body as given
	RawBody Hex    `json:"raw_body,omitempty"`
	// LenDelta is added to the set's length field (0 for well-formed sets).
	LenDelta int `json:"len_delta,omitempty"`
}

// Msg is one export message / packet.
type Msg struct {
	Proto string `json:"proto"` // "ipfix" | "nf9"
	// IPFIX header: Version=10, Length (computed), ExportTime, SequenceNo, DomainID
	// NF9 header:   Version=9, Count, SysUpTime, UNIXSecs, SeqNum, SrcID
	Count     uint16 `json:"count,omitempty"`     // nf9
	SysUpTime uint32 `json:"sysuptime,omitempty"` // nf9
	Time      uint32 `json:"time"`                // ExportTime / UNIXSecs
	Seq       uint32 `json:"seq"`
	Domain    uint32 `json:"domain"` // DomainID / SrcID
	Sets      []Set  `json:"sets"`
	// LenDelta is added to the IPFIX message length field (0 for well-formed messages).
	LenDelta int `json:"len_delta,omitempty"`
}

func put16(b []byte, v uint16) []byte { return append(b, byte(v>>8), byte(v)) }
func put32(b []byte, v uint32) []byte {
	return append(b, byte(v>>24), byte(v>>16), byte(v>>8), byte(v))
}

func encodeFieldSpec(proto string, b []byte, f Field) []byte {
	if proto == "ipfix" && f.PEN != 0 {
		b = put16(b, f.ID|0x8000)
		b = put16(b, f.Len)
		return put32(b, f.PEN)
	}
	b = put16(b, f.ID)
	return put16(b, f.Len)
}

// EncodeTemplate returns the template record (without set header).
func EncodeTemplate(proto string, tp *Template) []byte {
	var b []byte
	b = put16(b, tp.ID)
	if proto == "ipfix" {
		if tp.Options {
			b = put16(b, uint16(len(tp.Scope)+len(tp.Fields)))
			b = put16(b, uint16(len(tp.Scope)))
		} else {
			b = put16(b, uint16(len(tp.Fields)))
		}
	} else {
		if tp.Options {
			b = put16(b, uint16(4*len(tp.Scope)))  // option scope length (octets)
			b = put16(b, uint16(4*len(tp.Fields))) // option length (octets)
		} else {
			b = put16(b, uint16(len(tp.Fields)))
		}
	}
	for _, f := range tp.Scope {
		b = encodeFieldSpec(proto, b, f)
	}
	for _, f := range tp.Fields {
		b = encodeFieldSpec(proto, b, f)
	}
	return b
}

// EncodeRecord returns the octets of one data record under a template.
func EncodeRecord(tp *Template, r *Record) []byte {
	var b []byte
	for i, f := range tp.All() {
		v := []byte(r.Vals[i])
		if f.Len == VarLen {
			long := len(v) >= 255 || (i < len(r.Long) && r.Long[i])
			if long {
				b = append(b, 0xff)
				b = put16(b, uint16(len(v)))
			} else {
				b = append(b, byte(len(v)))
			}
		}
		b = append(b, v...)
	}
	return b
}

// SetID returns the wire id of a set.
func (s *Set) SetID(proto string) uint16 {
	switch s.Kind {
	case "tpl":
		if proto == "ipfix" {
			return 2
		}
		return 0
	case "opt":
		if proto == "ipfix" {
			return 3
		}
		return 1
	case "data":
		return s.Tpl.ID
	}
	return s.RawID
}

// EncodeSet returns the whole set including its header.
func EncodeSet(proto string, s *Set) []byte {
	var body []byte
	switch s.Kind {
	case "tpl", "opt":
		for i := range s.Tpls {
			body = append(body, EncodeTemplate(proto, &s.Tpls[i])...)
		}
	case "data":
		for i := range s.Recs {
			body = append(body, EncodeRecord(s.Tpl, &s.Recs[i])...)
		}
	case "raw":
		body = append(body, s.RawBody...)
	}
	for i := 0; i < s.Pad; i++ {
		body = append(body, 0)
	}
	var b []byte
	b = put16(b, s.SetID(proto))
	b = put16(b, uint16(4+len(body)+s.LenDelta))
	return append(b, body...)
}

// Bytes serialises the message.
func (m *Msg) Bytes() []byte {
	var body []byte
	for i := range m.Sets {
		body = append(body, EncodeSet(m.Proto, &m.Sets[i])...)
	}
	var b []byte
	if m.Proto == "ipfix" {
		b = put16(b, 10)
		b = put16(b, uint16(16+len(body)+m.LenDelta))
		b = put32(b, m.Time)
		b = put32(b, m.Seq)
		b = put32(b, m.Domain)
	} else {
		b = put16(b, 9)
		b = put16(b, m.Count)
		b = put32(b, m.SysUpTime)
		b = put32(b, m.Time)
		b = put32(b, m.Seq)
		b = put32(b, m.Domain)
	}
	return append(b, body...)
}

// SetOffsets returns the [start,end) octet range of every set within Bytes().
func (m *Msg) SetOffsets() [][2]int {
	off := 16
	if m.Proto == "nf9" {
		off = 20
	}
	var out [][2]int
	for i := range m.Sets {
		n := len(EncodeSet(m.Proto, &m.Sets[i]))
		out = append(out, [2]int{off, off + n})
		off += n
	}
	return out
}

// ExpHeader is the expected decoded header, as name -> value.
func (m *Msg) ExpHeader() map[string]uint64 {
	if m.Proto == "ipfix" {
		return map[string]uint64{"Version": 10, "Length": uint64(binary.BigEndian.Uint16(m.Bytes()[2:])),
			"ExportTime": uint64(m.Time), "SequenceNo": uint64(m.Seq), "DomainID": uint64(m.Domain)}
	}
	return map[string]uint64{"Version": 9, "Count": uint64(m.Count), "SysUpTime": uint64(m.SysUpTime),
		"UNIXSecs": uint64(m.Time), "SeqNum": uint64(m.Seq), "SrcID": uint64(m.Domain)}
}

// ExpField / ExpRecord: what the reference model says a decoded record must contain.
type ExpField struct {
	ID  uint16 `json:"id"`
	PEN uint32 `json:"pen,omitempty"`
	Val Canon  `json:"val"`
}
type ExpRecord []ExpField

// ExpectRecord interprets a record's octets under its template: scope fields first, template order.
func ExpectRecord(tp *Template, r *Record) ExpRecord {
	var out ExpRecord
	for i, f := range tp.All() {
		out = append(out, ExpField{ID: f.ID, PEN: f.PEN, Val: Interpret(f.Type, r.Vals[i])})
	}
	return out
}

// ExpectMsg returns the records a well-formed message must yield, in wire order, given that every
// data set's template is in force (announced earlier or earlier in this message). Raw sets yield none.
func ExpectMsg(m *Msg) []ExpRecord {
	var out []ExpRecord
	for i := range m.Sets {
		s := &m.Sets[i]
		if s.Kind != "data" {
			continue
		}
		for j := range s.Recs {
			out = append(out, ExpectRecord(s.Tpl, &s.Recs[j]))
		}
	}
	return out
}

// DecodedRecord is a decoder-independent copy of a decoded record (for comparison and printing).
type DecodedRecord []ExpField

// CompareRecords compares decoded records with the expectation; "" when equal.
func CompareRecords(got []DecodedRecord, want []ExpRecord) string {
	if len(got) != len(want) {
		return fmt.Sprintf("decoded %d records, the wire carries %d", len(got), len(want))
	}
	for i := range want {
		if len(got[i]) != len(want[i]) {
			return fmt.Sprintf("record %d: decoded %d fields, template describes %d", i, len(got[i]), len(want[i]))
		}
		for j := range want[i] {
			g, w := got[i][j], want[i][j]
			if g.ID != w.ID || g.PEN != w.PEN {
				return fmt.Sprintf("record %d field %d: decoded element (pen %d, id %d), template says (pen %d, id %d)", i, j, g.PEN, g.ID, w.PEN, w.ID)
			}
			if !g.Val.Equal(w.Val) {
				return fmt.Sprintf("record %d field %d (pen %d id %d): decoded %s, wire octets mean %s", i, j, w.PEN, w.ID, g.Val, w.Val)
			}
		}
	}
	return ""
}
