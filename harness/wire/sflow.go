package wire

import (
	"pgregory.net/rapid"
)

// sFlow version 5 datagrams (sflow.org/sflow_version_5.txt), XDR big-endian, 4-octet aligned.

type SFDatagram struct {
	Agent   Hex        `json:"agent"` // 4 (IPv4) or 16 (IPv6) octets
	SubID   uint32     `json:"subid"`
	Seq     uint32     `json:"seq"`
	Uptime  uint32     `json:"uptime"`
	Samples []SFSample `json:"samples"`
}

type SFSample struct {
	Kind       string     `json:"kind"` // flow | counter | unknown
	Enterprise uint32     `json:"ent,omitempty"`
	Format     uint32     `json:"fmt,omitempty"` // unknown: 12-bit format
	Flow       *SFFlow    `json:"flow,omitempty"`
	Counter    *SFCounter `json:"counter,omitempty"`
	Body       Hex        `json:"body,omitempty"`
}

type SFFlow struct {
	Seq     uint32      `json:"seq"`
	SrcType uint8       `json:"srctype"`
	SrcIdx  uint32      `json:"srcidx"` // 24 bits
	Rate    uint32      `json:"rate"`
	Pool    uint32      `json:"pool"`
	Drops   uint32      `json:"drops"`
	Input   uint32      `json:"input"`
	Output  uint32      `json:"output"`
	Recs    []SFFlowRec `json:"recs"`
}

type SFFlowRec struct {
	Kind   string    `json:"kind"`          // raw | switch | router | unknown
	Format uint32    `json:"fmt,omitempty"` // unknown: full 32-bit data format (enterprise<<12 | format)
	Raw    *SFRaw    `json:"raw,omitempty"`
	Switch []uint32  `json:"switch,omitempty"` // src vlan, src priority, dst vlan, dst priority
	Router *SFRouter `json:"router,omitempty"`
	Body   Hex       `json:"body,omitempty"`
}

type SFRaw struct {
	FrameLen uint32 `json:"framelen"`
	Stripped uint32 `json:"stripped"`
	Pkt      L234   `json:"pkt"`
	// Cut > 0: the sampled header holds only the first Cut-1 octets of the packet (agents sample 64 / 128 / any
	// configured number of octets; the cut may fall inside any protocol header). Robustness checks only.
	Cut int `json:"cut,omitempty"`
}

type SFRouter struct {
	NextHop Hex    `json:"nexthop"` // 4 or 16 octets
	SrcMask uint32 `json:"srcmask"`
	DstMask uint32 `json:"dstmask"`
}

type SFCounter struct {
	Seq     uint32         `json:"seq"`
	SrcType uint8          `json:"srctype"`
	SrcIdx  uint32         `json:"srcidx"` // 24 bits
	Recs    []SFCounterRec `json:"recs"`
}

type SFCounterRec struct {
	Kind   string   `json:"kind"` // gen eth tr vg vlan proc unknown
	Format uint32   `json:"fmt,omitempty"`
	Vals   []uint64 `json:"vals,omitempty"`
	Body   Hex      `json:"body,omitempty"`
}

// CounterLayouts: octet width of every field of the six supported counter structures, in wire order.
var CounterLayouts = map[string]struct {
	Format uint32
	Key    string // key in CounterSample.Records
	Sizes  []int
}{
	"gen":  {1, "GenInt", []int{4, 4, 8, 4, 4, 8, 4, 4, 4, 4, 4, 4, 8, 4, 4, 4, 4, 4, 4}},
	"eth":  {2, "EthInt", []int{4, 4, 4, 4, 4, 4, 4, 4, 4, 4, 4, 4, 4}},
	"tr":   {3, "TRInt", []int{4, 4, 4, 4, 4, 4, 4, 4, 4, 4, 4, 4, 4, 4, 4, 4, 4, 4}},
	"vg":   {4, "VGInt", []int{4, 8, 4, 8, 4, 4, 4, 4, 4, 8, 4, 8, 8, 8}},
	"vlan": {5, "Vlan", []int{4, 8, 4, 4, 4, 4}},
	"proc": {1001, "Proc", []int{4, 4, 4, 8, 8}},
}

var CounterKinds = []string{"gen", "eth", "tr", "vg", "vlan", "proc"}

func put64(b []byte, v uint64) []byte {
	return append(b, byte(v>>56), byte(v>>48), byte(v>>40), byte(v>>32), byte(v>>24), byte(v>>16), byte(v>>8), byte(v))
}

func xdrPad(b []byte) []byte {
	for len(b)%4 != 0 {
		b = append(b, 0)
	}
	return b
}

func (r *SFFlowRec) encode() []byte {
	var body []byte
	var format uint32
	switch r.Kind {
	case "raw":
		format = 1
		h := r.Raw.Pkt.Bytes()
		if r.Raw.Cut > 0 && r.Raw.Cut <= len(h) {
			h = h[:r.Raw.Cut-1] // the agent sampled only the first Cut-1 octets of the packet
		}
		body = put32(body, r.Raw.Pkt.Proto)
		body = put32(body, r.Raw.FrameLen)
		body = put32(body, r.Raw.Stripped)
		body = put32(body, uint32(len(h)))
		body = append(body, h...)
		body = xdrPad(body)
	case "switch":
		format = 1001
		for _, x := range r.Switch {
			body = put32(body, x)
		}
	case "router":
		format = 1002
		if len(r.Router.NextHop) == 4 {
			body = put32(body, 1)
		} else {
			body = put32(body, 2)
		}
		body = append(body, r.Router.NextHop...)
		body = put32(body, r.Router.SrcMask)
		body = put32(body, r.Router.DstMask)
	default:
		format = r.Format
		body = append(body, r.Body...)
	}
	var b []byte
	b = put32(b, format)
	b = put32(b, uint32(len(body)))
	return append(b, body...)
}

func (r *SFCounterRec) encode() []byte {
	var body []byte
	format := r.Format
	if l, ok := CounterLayouts[r.Kind]; ok {
		format = l.Format
		for i, sz := range l.Sizes {
			if sz == 8 {
				body = put64(body, r.Vals[i])
			} else {
				body = put32(body, uint32(r.Vals[i]))
			}
		}
	} else {
		body = append(body, r.Body...)
	}
	var b []byte
	b = put32(b, format)
	b = put32(b, uint32(len(body)))
	return append(b, body...)
}

func (s *SFSample) encode() []byte {
	var body []byte
	var typ uint32
	switch s.Kind {
	case "flow":
		typ = 1
		f := s.Flow
		body = put32(body, f.Seq)
		body = put32(body, uint32(f.SrcType)<<24|f.SrcIdx&0xffffff)
		body = put32(body, f.Rate)
		body = put32(body, f.Pool)
		body = put32(body, f.Drops)
		body = put32(body, f.Input)
		body = put32(body, f.Output)
		body = put32(body, uint32(len(f.Recs)))
		for i := range f.Recs {
			body = append(body, f.Recs[i].encode()...)
		}
	case "counter":
		typ = 2
		c := s.Counter
		body = put32(body, c.Seq)
		body = put32(body, uint32(c.SrcType)<<24|c.SrcIdx&0xffffff)
		body = put32(body, uint32(len(c.Recs)))
		for i := range c.Recs {
			body = append(body, c.Recs[i].encode()...)
		}
	default:
		typ = s.Enterprise<<12 | s.Format&0xfff
		body = append(body, s.Body...)
	}
	var b []byte
	b = put32(b, typ)
	b = put32(b, uint32(len(body)))
	return append(b, body...)
}

// SampleType returns the 12-bit format the type filter is matched against (enterprise 0 samples only).
func (s *SFSample) SampleType() (enterprise, format uint32) {
	switch s.Kind {
	case "flow":
		return 0, 1
	case "counter":
		return 0, 2
	}
	return s.Enterprise, s.Format & 0xfff
}

func (d *SFDatagram) Bytes() []byte {
	var b []byte
	b = put32(b, 5)
	if len(d.Agent) == 16 {
		b = put32(b, 2)
	} else {
		b = put32(b, 1)
	}
	b = append(b, d.Agent...)
	b = put32(b, d.SubID)
	b = put32(b, d.Seq)
	b = put32(b, d.Uptime)
	b = put32(b, uint32(len(d.Samples)))
	for i := range d.Samples {
		b = append(b, d.Samples[i].encode()...)
	}
	return b
}

// ---------------------------------------------------------------- generators

func genU32(t *rapid.T, label string) uint32 {
	return rapid.OneOf(rapid.SampledFrom([]uint32{0, 1, 0x7fffffff, 0x80000000, 0xffffffff}), rapid.Uint32(), rapid.Uint32Range(0, 70000)).Draw(t, label)
}

func genU64(t *rapid.T, label string) uint64 {
	return rapid.OneOf(rapid.SampledFrom([]uint64{0, 1, 0x7fffffffffffffff, 0x8000000000000000, 0xffffffffffffffff, 0xffffffff, 0x100000000}), rapid.Uint64()).Draw(t, label)
}

func genBody(t *rapid.T, maxWords int) Hex {
	n := rapid.IntRange(0, maxWords).Draw(t, "words") * 4
	return rapid.SliceOfN(rapid.Byte(), n, n).Draw(t, "body")
}

func genUnknownFlowRecFormat(t *rapid.T) uint32 {
	return rapid.OneOf(
		rapid.SampledFrom([]uint32{0, 2, 3, 4, 1003, 1004, 1005, 1006, 1000, 4095, 1<<12 | 1, 1<<12 | 1001, 1<<12 | 1002, 0xffffffff}),
		rapid.Uint32Range(3, 1000), rapid.Uint32Range(1003, 0xffffffff),
	).Draw(t, "recfmt")
}

func genUnknownCounterRecFormat(t *rapid.T) uint32 {
	return rapid.OneOf(
		rapid.SampledFrom([]uint32{0, 6, 7, 1000, 1002, 2000, 1<<12 | 1, 1<<12 | 2, 1<<12 | 1001, 0xffffffff}),
		rapid.Uint32Range(6, 1000), rapid.Uint32Range(1002, 0xffffffff),
	).Draw(t, "crecfmt")
}

func GenSFFlow(t *rapid.T) SFFlow {
	f := SFFlow{Seq: genU32(t, "seq"), SrcType: rapid.Byte().Draw(t, "srctype"), SrcIdx: rapid.Uint32Range(0, 0xffffff).Draw(t, "srcidx"),
		Rate: genU32(t, "rate"), Pool: genU32(t, "pool"), Drops: genU32(t, "drops"), Input: genU32(t, "in"), Output: genU32(t, "out")}
	// at most one record of each supported kind (vflow keeps records in a map keyed by kind)
	kinds := rapid.Permutation([]string{"raw", "switch", "router", "unknown", "unknown2"}).Draw(t, "reckinds")
	n := rapid.IntRange(0, len(kinds)).Draw(t, "nrecs")
	for _, k := range kinds[:n] {
		r := SFFlowRec{Kind: k}
		switch k {
		case "raw":
			r.Raw = &SFRaw{FrameLen: genU32(t, "framelen"), Stripped: genU32(t, "stripped"), Pkt: GenL234(t)}
		case "switch":
			r.Switch = []uint32{genU32(t, "svlan"), genU32(t, "sprio"), genU32(t, "dvlan"), genU32(t, "dprio")}
		case "router":
			n := 4
			if rapid.Bool().Draw(t, "nh6") {
				n = 16
			}
			r.Router = &SFRouter{NextHop: genAddr(t, n, "nexthop"), SrcMask: genU32(t, "smask"), DstMask: genU32(t, "dmask")}
		default:
			r.Kind = "unknown"
			r.Format = genUnknownFlowRecFormat(t)
			r.Body = genBody(t, 6)
		}
		f.Recs = append(f.Recs, r)
	}
	return f
}

func GenSFCounter(t *rapid.T) SFCounter {
	c := SFCounter{Seq: genU32(t, "seq"), SrcType: rapid.Byte().Draw(t, "srctype"), SrcIdx: rapid.Uint32Range(0, 0xffffff).Draw(t, "srcidx")}
	kinds := rapid.Permutation([]string{"gen", "eth", "tr", "vg", "vlan", "proc", "unknown", "unknown2"}).Draw(t, "ckinds")
	n := rapid.OneOf(rapid.IntRange(0, 3), rapid.IntRange(0, len(kinds))).Draw(t, "ncrecs")
	for _, k := range kinds[:n] {
		r := SFCounterRec{Kind: k}
		if l, ok := CounterLayouts[k]; ok {
			distinct := rapid.Bool().Draw(t, "distinct")
			for i, sz := range l.Sizes {
				var v uint64
				switch {
				case distinct:
					v = uint64(i+1) * 0x01010101
				case sz == 8:
					v = genU64(t, "c64")
				default:
					v = uint64(genU32(t, "c32"))
				}
				r.Vals = append(r.Vals, v)
			}
		} else {
			r.Kind = "unknown"
			r.Format = genUnknownCounterRecFormat(t)
			r.Body = genBody(t, 8)
		}
		c.Recs = append(c.Recs, r)
	}
	return c
}

func GenSFSample(t *rapid.T) SFSample {
	switch rapid.IntRange(0, 9).Draw(t, "samplekind") {
	case 0, 1, 2, 3:
		f := GenSFFlow(t)
		return SFSample{Kind: "flow", Flow: &f}
	case 4, 5, 6:
		c := GenSFCounter(t)
		return SFSample{Kind: "counter", Counter: &c}
	case 7:
		// enterprise-specific sample (enterprise != 0), any format incl. 1 and 2
		return SFSample{Kind: "unknown", Enterprise: rapid.OneOf(rapid.SampledFrom([]uint32{1, 9, 0xfffff}), rapid.Uint32Range(1, 0xfffff)).Draw(t, "ent"),
			Format: rapid.OneOf(rapid.SampledFrom([]uint32{0, 1, 2, 3, 4}), rapid.Uint32Range(0, 0xfff)).Draw(t, "fmt"), Body: genBody(t, 12)}
	default:
		// standard enterprise, format other than flow/counter (incl. expanded samples 3 and 4)
		return SFSample{Kind: "unknown", Format: rapid.OneOf(rapid.SampledFrom([]uint32{0, 3, 4, 5, 0xfff}), rapid.Uint32Range(3, 0xfff)).Draw(t, "fmt"), Body: genBody(t, 12)}
	}
}

func GenSFDatagram(t *rapid.T) SFDatagram {
	d := SFDatagram{SubID: genU32(t, "subid"), Seq: genU32(t, "dseq"), Uptime: genU32(t, "uptime")}
	n := 4
	if rapid.IntRange(0, 2).Draw(t, "agent6") == 0 {
		n = 16
	}
	d.Agent = genAddr(t, n, "agent")
	ns := rapid.OneOf(rapid.IntRange(1, 3), rapid.IntRange(0, 8)).Draw(t, "nsamples")
	for i := 0; i < ns; i++ {
		d.Samples = append(d.Samples, GenSFSample(t))
	}
	if rapid.IntRange(0, 39).Draw(t, "manysamples") == 0 {
		// many small samples: counts around the 6-, 8- and 9-bit marks (the real ones drawn above sit among them)
		many := rapid.SampledFrom([]int{31, 32, 33, 63, 64, 65, 127, 128, 255, 256, 257, 300}).Draw(t, "nmany")
		at := rapid.IntRange(0, len(d.Samples)).Draw(t, "manyat")
		var small []SFSample
		for i := 0; i < many; i++ {
			switch i % 3 {
			case 0:
				small = append(small, SFSample{Kind: "unknown", Format: uint32(5 + i%7), Body: Hex{}})
			case 1:
				small = append(small, SFSample{Kind: "counter", Counter: &SFCounter{Seq: uint32(i), SrcIdx: uint32(i), Recs: []SFCounterRec{{Kind: "proc", Vals: []uint64{uint64(i), 2, 3, 4, 5}}}}})
			default:
				small = append(small, SFSample{Kind: "flow", Flow: &SFFlow{Seq: uint32(i), SrcIdx: uint32(i), Rate: 1, Recs: []SFFlowRec{{Kind: "switch", Switch: []uint32{uint32(i), 0, 2, 0}}}}})
			}
		}
		all := append(append(append([]SFSample{}, d.Samples[:at]...), small...), d.Samples[at:]...)
		d.Samples = all
	}
	return d
}

// StructuralOffsets returns the octet offsets of the 32-bit words that carry types, counts and lengths.
func (d *SFDatagram) StructuralOffsets() []int {
	offs := []int{0, 4}
	off := 8 + len(d.Agent) + 12
	offs = append(offs, off) // samples count
	off += 4
	for i := range d.Samples {
		s := &d.Samples[i]
		enc := s.encode()
		offs = append(offs, off, off+4)
		body := off + 8
		switch s.Kind {
		case "flow":
			offs = append(offs, body+4, body+28)
			r := body + 32
			for k := range s.Flow.Recs {
				re := s.Flow.Recs[k].encode()
				offs = append(offs, r, r+4)
				switch s.Flow.Recs[k].Kind {
				case "raw":
					offs = append(offs, r+8, r+20)
					// first octets of the sampled header (ether type / version / protocol live here)
					for o := r + 24; o < r+len(re) && o < r+24+60; o += 4 {
						offs = append(offs, o)
					}
				case "router":
					offs = append(offs, r+8)
				}
				r += len(re)
			}
		case "counter":
			offs = append(offs, body+4, body+8)
			r := body + 12
			for k := range s.Counter.Recs {
				re := s.Counter.Recs[k].encode()
				offs = append(offs, r, r+4)
				r += len(re)
			}
		}
		off += len(enc)
	}
	return offs
}

// genAddr draws 4 address octets, or 16 the way GenV6 does.
func genAddr(t *rapid.T, n int, label string) Hex {
	if n == 16 {
		return genV6(t, label)
	}
	return rapid.SliceOfN(rapid.Byte(), n, n).Draw(t, label)
}
