#!/usr/bin/env python3
"""Runs the repository's baseline suite (guard off) and compares with /root/.vp/BASELINE.json."""
import json, subprocess, os, sys
env=dict(os.environ, GOFLAGS="-mod=mod", GOPROXY="off", GOSUMDB="off", GOTOOLCHAIN="local")
r=subprocess.run(["go","test","-json","-vet=off","-count=1","-timeout","25m","./..."],cwd="/repo",env=env,stdout=subprocess.PIPE,stderr=subprocess.STDOUT,text=True)
passed=set()
for line in r.stdout.splitlines():
    try: e=json.loads(line)
    except Exception: continue
    if e.get("Action")=="pass" and e.get("Test") and "/" not in e["Test"]:
        passed.add("%s::%s"%(e["Package"],e["Test"]))
base=set(json.load(open("/root/.vp/BASELINE.json"))["stable_pass"])
missing=sorted(base-passed)
print("baseline tests: %d, passing now: %d, missing: %s"%(len(base),len(base&passed),missing))
sys.exit(1 if missing else 0)
