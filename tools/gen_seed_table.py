#!/usr/bin/env python3
"""Regenerates the seeded-defect table of DESIGN.md (section 6.1) from seeded/*/meta.json."""
import json, glob, os, re
VERIF = os.path.dirname(os.path.dirname(os.path.abspath(__file__)))
rows = []
missed = 0
total = 0
for d in sorted(glob.glob(os.path.join(VERIF, "seeded", "C*", "meta.json"))):
    m = json.load(open(d))
    total += 1
    res = m.get("checks_run", {}).get("results", {})
    det = ", ".join("%s: %s" % (p, "yes" if r.get("detected") else ("inconclusive" if r.get("exit") == 2 else "no")) for p, r in res.items())
    if m.get("initially_missed") and not m["initially_missed"].startswith(("caught", "not reported by", "found after")):
        missed += 1
    rows.append("| %s | %s | %s | %s |" % (m["name"], m.get("needs_to_manifest", ""), det, m.get("initially_missed") or "—"))
tbl = ("| seed | change and what it needs to manifest | reported by (quick tier; 'no' = that check is not the one that sees it) | initially missed → what was strengthened |\n"
       "|---|---|---|---|\n" + "\n".join(rows))
tbl += ("\n\n%d seeded defects from seventeen rounds of independent sub-agents (`-r2` .. `-r17`: later rounds were told which ideas had been used "
        "and asked for different mechanisms). Every one is reported by the quick tier of at least one check, and by the check of the property "
        "it was written against except where the last column says otherwise. %d were missed by the then-current version of the check they "
        "target; each miss pointed at a class of cases the generator or fault plan could not reach, and the class was added (never a special case "
        "for the seed). `tools/seeded_rerun.py quick` re-applies every patch in a scratch worktree (`VERIF_REPO`) and records the outcome in "
        "`seeded/<name>/meta.json` and `seeded/RESULTS.md`." % (total, missed))
p = os.path.join(VERIF, "DESIGN.md")
s = open(p).read()
b, e = "<!-- SEEDED-TABLE-BEGIN -->", "<!-- SEEDED-TABLE-END -->"
assert b in s and e in s
s = s[:s.index(b) + len(b)] + "\n" + tbl + "\n" + s[s.index(e):]
open(p, "w").write(s)
print("seeds:", total, "initially missed:", missed)
