#!/usr/bin/env python3
"""Orchestration of the vflow property checks.

  ./check <ID> quick|thorough          run one property's check (tier may also come from VERIF_TIER)
  ./check <ID> --replay <file>         re-run one saved failing case through the same oracle
  ./check --setup                      build everything once (warms the Go build cache)
  ./check all quick|thorough           run every claimed property (convenience)

Exit status: 0 = property held on everything explored; 1 = violation (a line
"VIOLATION property=<ID> replay=<path>" is printed for each); 2 = inconclusive
(infrastructure trouble: build failure, time budget, worker death not attributable
to the code under test) -- never reported as a violation.

Everything is rebuilt from /repo's current working tree on every invocation (the Go
build cache makes that cheap).  All randomness derives from VERIF_SEED.
"""
import glob
import json
import os
import re
import shutil
import subprocess
import sys
import time
import zlib

VERIF = os.path.dirname(os.path.dirname(os.path.abspath(__file__)))
REPO = os.environ.get("VERIF_REPO", "/repo")
HARNESS = os.path.join(VERIF, "harness")
WORK = os.path.join(VERIF, "work")
EVID = os.path.join(VERIF, "evidence")
REPLAY = os.path.join(VERIF, "replay")
KNOWN = os.path.join(VERIF, "known_findings.txt")
if os.path.realpath(REPO) != "/repo":
    # Sensitivity trials against a scratch tree (a seeded defect applied in a worktree): a private copy of the
    # harness module whose replace directive points at that tree, with its own work, evidence and replay
    # directories, so that /repo, the registered evidence and concurrent runs are left alone.
    _tag = "alt-" + "".join(ch if ch.isalnum() else "_" for ch in os.path.realpath(REPO))[-40:]
    WORK = os.path.join(VERIF, "work", _tag)
    EVID = os.path.join(WORK, "evidence")
    REPLAY = os.path.join(WORK, "replay")
    os.makedirs(WORK, exist_ok=True)
    _alt = os.path.join(WORK, "harness")
    shutil.rmtree(_alt, ignore_errors=True)
    shutil.copytree(HARNESS, _alt)
    _gm = open(os.path.join(_alt, "go.mod")).read().replace("=> /repo", "=> " + os.path.realpath(REPO))
    open(os.path.join(_alt, "go.mod"), "w").write(_gm)
    HARNESS = _alt
PROPS_DIR = os.path.join(HARNESS, "props")
NCPU = os.cpu_count() or 4

GOENV = dict(os.environ)
GOENV.update({"GOFLAGS": "-mod=mod", "GOPROXY": "off", "GOSUMDB": "off", "GOTOOLCHAIN": "local",
              "CGO_ENABLED": GOENV.get("CGO_ENABLED", "1")})

sys.path.insert(0, os.path.join(VERIF, "tools"))
from props_table import PROPS  # noqa: E402


def log(*a):
    print("[check]", *a, flush=True)


class Inconclusive(Exception):
    pass


# ------------------------------------------------------------------ building

def run(cmd, cwd=None, env=None, timeout=None):
    return subprocess.run(cmd, cwd=cwd, env=env or GOENV, timeout=timeout,
                          stdout=subprocess.PIPE, stderr=subprocess.STDOUT, text=True, errors="replace")


def build_harness(race=False):
    os.makedirs(WORK, exist_ok=True)
    out = os.path.join(WORK, "props.race.test" if race else "props.test")
    cmd = ["go", "test", "-c", "-o", out]
    if race:
        cmd.append("-race")
    cmd.append("./props")
    t0 = time.time()
    r = run(cmd, cwd=HARNESS, timeout=1500)
    if r.returncode != 0:
        raise Inconclusive("harness build failed (does /repo still compile?):\n" + r.stdout[-4000:])
    log("built %s in %.1fs" % (os.path.basename(out), time.time() - t0))
    return out


def build_driver(race=False):
    """The package-main driver: /repo/vflow/verif_driver_test.go behind build tag 'verif'."""
    os.makedirs(WORK, exist_ok=True)
    out = os.path.join(WORK, "drv.race.test" if race else "drv.test")
    env = dict(GOENV)
    env["GOFLAGS"] = "-mod=readonly"
    cmd = ["go", "test", "-c", "-tags", "verif", "-o", out]
    if race:
        cmd.append("-race")
    cmd.append("./vflow")
    t0 = time.time()
    r = run(cmd, cwd=REPO, env=env, timeout=1500)
    if r.returncode != 0:
        raise Inconclusive("driver build failed:\n" + r.stdout[-4000:])
    log("built %s in %.1fs" % (os.path.basename(out), time.time() - t0))
    return out


def build_vflow(race=False):
    os.makedirs(WORK, exist_ok=True)
    out = os.path.join(WORK, "vflow.race" if race else "vflow")
    env = dict(GOENV)
    env["GOFLAGS"] = "-mod=readonly"
    cmd = ["go", "build", "-o", out]
    if race:
        cmd.append("-race")
    cmd.append("./vflow")
    t0 = time.time()
    r = run(cmd, cwd=REPO, env=env, timeout=1500)
    if r.returncode != 0:
        raise Inconclusive("vflow build failed:\n" + r.stdout[-4000:])
    log("built %s in %.1fs" % (os.path.basename(out), time.time() - t0))
    return out


# ------------------------------------------------------------------ running

def shard_seed(base, prop, i, salt=0):
    s = (base * 2654435761 + i * 40503 + zlib.crc32(prop.encode()) + salt * 977) & 0x7FFFFFFF
    return s or 1


def run_rapid(prop, cfg, tier, base_seed, binaries):
    """Run the rapid-driven test of a property in parallel shards; returns (stats list, logs, failures)."""
    tcfg = cfg[tier]
    shards = min(tcfg.get("shards", 1), NCPU)
    checks = max(1, tcfg["checks"] // shards)
    outdir = os.path.join(WORK, "out", prop)
    shutil.rmtree(outdir, ignore_errors=True)
    os.makedirs(outdir, exist_ok=True)
    binary = binaries["race" if cfg.get("race") else "plain"]
    budget = tcfg.get("budget_s", 900)
    procs = []
    for i in range(shards):
        seed = shard_seed(base_seed, prop, i)
        out = os.path.join(outdir, "stats.%d.json" % i)
        logf = os.path.join(outdir, "log.%d.txt" % i)
        cmd = [binary, "-test.run", "^(%s)$" % tcfg.get("test", cfg["test"]), "-test.count=1", "-test.v",
               "-test.timeout", "%ds" % (budget + 120),
               "-rapid.checks=%d" % checks, "-rapid.seed=%d" % seed, "-rapid.nofailfile",
               "-rapid.shrinktime=%s" % tcfg.get("shrinktime", "20s"),
               "-verif.out", out, "-verif.replaydir", REPLAY, "-verif.shard", "s%d" % seed,
               "-verif.known", KNOWN]
        env = dict(GOENV)
        env["VERIF_TIER"] = tier
        env["VERIF_WORK"] = WORK
        env["VERIF_SHARD_INDEX"] = str(i)
        env["VERIF_SHARDS"] = str(shards)
        env["VERIF_DRV"] = binaries.get("drv", "")
        env["VERIF_DRV_RACE"] = binaries.get("drv_race", "")
        env["VERIF_VFLOW"] = binaries.get("vflow", "")
        env["VERIF_VFLOW_RACE"] = binaries.get("vflow_race", "")
        env["VERIF_REPO"] = REPO
        env["VERIF_GOLDEN"] = os.path.join(VERIF, "golden", "ipfix_registry.json")
        env["VERIF_INFLIGHT_DIR"] = outdir
        if cfg.get("race"):
            env["GORACE"] = "halt_on_error=1"
        for k, v in tcfg.get("env", {}).items():
            env[k] = str(v)
        fh = open(logf, "w")
        p = subprocess.Popen(cmd, cwd=PROPS_DIR, env=env, stdout=fh, stderr=subprocess.STDOUT)
        procs.append((p, out, logf, fh, seed))
    deadline = time.time() + budget + 180
    results = []
    for p, out, logf, fh, seed in procs:
        try:
            rc = p.wait(timeout=max(1, deadline - time.time()))
        except subprocess.TimeoutExpired:
            p.kill()
            p.wait()
            rc = -999
        fh.close()
        results.append((rc, out, logf, seed, checks))
    return results


def merge_stats(prop, results):
    merged = {"evaluations": 0, "nt": set(), "classes": {}, "samples": [], "violations": 0, "known": {},
              "extra": {}, "assumptions": [], "replay_files": [], "rule": ""}
    for rc, out, logf, seed, checks in results:
        if not os.path.exists(out):
            continue
        try:
            allst = json.load(open(out))
        except Exception:
            continue
        st = allst.get(prop)
        if not st:
            continue
        merged["evaluations"] += st.get("evaluations", 0)
        merged["nt"].update(st.get("nt_hashes") or [])
        for k, v in (st.get("classes") or {}).items():
            merged["classes"][k] = merged["classes"].get(k, 0) + v
        for k, v in (st.get("known") or {}).items():
            merged["known"][k] = merged["known"].get(k, 0) + v
        for k, v in (st.get("extra") or {}).items():
            if k.startswith("max_"):
                merged["extra"][k] = max(merged["extra"].get(k, 0), v)
            else:
                merged["extra"][k] = merged["extra"].get(k, 0) + v
        for s in (st.get("samples") or []):
            if len(merged["samples"]) < 5:
                merged["samples"].append(s)
        merged["violations"] += st.get("violations", 0)
        for a in (st.get("assumptions") or []):
            if a not in merged["assumptions"]:
                merged["assumptions"].append(a)
        for f in (st.get("replay_files") or []):
            if f not in merged["replay_files"]:
                merged["replay_files"].append(f)
        merged["rule"] = st.get("rule") or merged["rule"]
    return merged


CRASH_RE = re.compile(r"^(panic: |fatal error: |WARNING: DATA RACE)", re.M)


def classify_failures(prop, results, merged):
    """Returns (violations [(kind, replay path)], inconclusive reasons)."""
    viol, inconc = [], []
    # the replay directory of the property was emptied before the run: every file in it is fresh
    for f in sorted(glob.glob(os.path.join(REPLAY, prop, "*.json"))):
        if f not in merged["replay_files"]:
            merged["replay_files"].append(f)
    for f in merged["replay_files"]:
        viol.append(("case", f))
    for rc, out, logf, seed, checks in results:
        if rc == 0:
            continue
        text = open(logf, errors="replace").read() if os.path.exists(logf) else ""
        had_replay = any(("-s%d." % seed) in f or f.endswith("-s%d.json" % seed) for f in merged["replay_files"])
        if rc == -999:
            inconc.append("shard seed=%d exceeded its time budget" % seed)
            continue
        if had_replay:
            continue
        m = CRASH_RE.search(text)
        if m and ("EdgeCast/vflow" in text or "DATA RACE" in text):
            d = os.path.join(REPLAY, prop)
            os.makedirs(d, exist_ok=True)
            dst = os.path.join(d, "crash-s%d.log" % seed)
            open(dst, "w").write(text[-200000:])
            # the harness keeps the case that was running in a side file: that is the replayable unit
            infl = os.path.join(WORK, "out", prop, "inflight-s%d.json" % seed)
            if os.path.exists(infl):
                rp = os.path.join(d, "crash-s%d.json" % seed)
                try:
                    rf = json.load(open(infl))
                    rf["message"] = (m.group(0) + " ... " + text[m.start():m.start() + 1500])
                    json.dump(rf, open(rp, "w"), indent=1)
                    dst = rp
                except Exception:
                    pass
            viol.append(("crash", dst))
        elif "test timed out" in text or "panic: test timed out" in text:
            inconc.append("shard seed=%d: go test deadline" % seed)
        else:
            inconc.append("shard seed=%d exited with status %s without a replay file (see %s)" % (seed, rc, logf))
    return viol, inconc


def rapid_counts(results):
    """Cross-check: sum of 'OK, passed N tests' must match the requested checks."""
    passed = 0
    for rc, out, logf, seed, checks in results:
        if os.path.exists(logf):
            for m in re.finditer(r"OK, passed (\d+) tests", open(logf, errors="replace").read()):
                passed += int(m.group(1))
    return passed


# ------------------------------------------------------------------ native fuzzing (thorough only)

def run_fuzz(prop, targets, base_seed):
    """go test -fuzz campaigns; cannot be pinned to a seed (the saved crasher is the reproducible unit)."""
    viol, info = [], []
    for name, secs in targets:
        tdir = os.path.join(PROPS_DIR, "testdata", "fuzz", name)
        before = set(os.listdir(tdir)) if os.path.isdir(tdir) else set()
        t0 = time.time()
        env = dict(GOENV)
        env["VERIF_FUZZ"] = "1"
        cmd = ["go", "test", "-run", "^$", "-fuzz", "^%s$" % name, "-fuzztime", "%ds" % secs,
               "./props"]
        try:
            r = run(cmd, cwd=HARNESS, env=env, timeout=secs + 600)
        except subprocess.TimeoutExpired:
            info.append({"target": name, "outcome": "timeout"})
            continue
        execs = 0
        for m in re.finditer(r"execs: (\d+)", r.stdout):
            execs = max(execs, int(m.group(1)))
        after = set(os.listdir(tdir)) if os.path.isdir(tdir) else set()
        new = sorted(after - before)
        entry = {"target": name, "seconds": round(time.time() - t0, 1), "execs": execs, "crashers": len(new)}
        if r.returncode != 0 and not new:
            if "FAIL" in r.stdout and ("panic" in r.stdout or "Failing input" in r.stdout or "--- FAIL" in r.stdout):
                d = os.path.join(REPLAY, prop)
                os.makedirs(d, exist_ok=True)
                dst = os.path.join(d, "fuzz-%s.log" % name)
                open(dst, "w").write(r.stdout[-100000:])
                viol.append(("fuzz", dst))
            else:
                entry["outcome"] = "inconclusive: " + r.stdout[-300:]
        for f in new:
            d = os.path.join(REPLAY, prop)
            os.makedirs(d, exist_ok=True)
            dst = os.path.join(d, "fuzz-%s-%s" % (name, f))
            shutil.move(os.path.join(tdir, f), dst)
            # the fuzzer's report (failure message of the minimised input) is kept next to the input
            open(dst + ".report.log", "w").write(r.stdout[-20000:])
            viol.append(("fuzz", dst))
        info.append(entry)
    return viol, info


# ------------------------------------------------------------------ evidence

def write_evidence(prop, cfg, tier, seed, merged, wall, nviol, extra_cov=None):
    os.makedirs(EVID, exist_ok=True)
    cov = {
        "evaluations": merged["evaluations"],
        "distinct_nontrivial": len(merged["nt"]),
        "rule": merged["rule"] or cfg.get("rule", ""),
        "samples": merged["samples"],
        "classes": dict(sorted(merged["classes"].items())),
    }
    if merged["known"]:
        cov["known_findings_excluded"] = merged["known"]
    if merged["extra"]:
        cov.update({k: v for k, v in merged["extra"].items()})
    if cfg.get("exhaustive"):
        cov["exhaustive"] = True
    if extra_cov:
        cov.update(extra_cov)
    ev = {
        "property_id": prop,
        "tier": tier,
        "seed": seed,
        "level": cfg.get("level", "exploration"),
        "coverage": cov,
        "assumptions": (cfg.get("assumptions") or []) + merged["assumptions"],
        "wall_s": round(wall, 2),
        "violations": nviol,
    }
    path = os.path.join(EVID, prop + ".json")
    tmp = path + ".tmp"
    json.dump(ev, open(tmp, "w"), indent=1)
    os.replace(tmp, path)
    return path


# ------------------------------------------------------------------ main per-property driver

def needed_binaries(cfg, tier):
    b = {}
    needs = set(cfg.get("needs", [])) | set(cfg[tier].get("needs", []))
    if cfg.get("race"):
        b["race"] = build_harness(race=True)
    else:
        b["plain"] = build_harness(race=False)
    if "drv" in needs:
        b["drv"] = build_driver(False)
    if "drv_race" in needs:
        b["drv_race"] = build_driver(True)
    if "vflow" in needs:
        b["vflow"] = build_vflow(False)
    if "vflow_race" in needs:
        b["vflow_race"] = build_vflow(True)
    return b


def check_property(prop, tier):
    cfg = PROPS[prop]
    seed = int(os.environ.get("VERIF_SEED", "1") or "1")
    t0 = time.time()
    # stale replay files of this property would be mistaken for fresh ones
    shutil.rmtree(os.path.join(REPLAY, prop), ignore_errors=True)
    # scratch directories left behind by test processes that were killed (race reports halt the process)
    for d in glob.glob(os.path.join(WORK, "c1[0145]-*")) + glob.glob(os.path.join(WORK, "e2e*-*")) + glob.glob(os.path.join(WORK, "drv*")):
        try:
            if os.path.isdir(d) and time.time() - os.path.getmtime(d) > 1800:
                shutil.rmtree(d, ignore_errors=True)
        except OSError:
            pass
    try:
        binaries = needed_binaries(cfg, tier)
        results = run_rapid(prop, cfg, tier, seed, binaries)
    except Inconclusive as e:
        log("INCONCLUSIVE:", e)
        return 2
    merged = merge_stats(prop, results)
    viol, inconc = classify_failures(prop, results, merged)
    extra_cov = {"shards": len(results), "rapid_checks_requested": sum(r[4] for r in results),
                 "rapid_checks_passed": rapid_counts(results)}
    if tier == "thorough" and cfg["thorough"].get("fuzz") and not viol:
        fv, finfo = run_fuzz(prop, cfg["thorough"]["fuzz"], seed)
        viol += fv
        extra_cov["native_fuzz"] = finfo
    wall = time.time() - t0
    for k, what in sorted(merged["known"].items()):
        print("KNOWN-FINDING: property=%s %s (cases excluded: %d)" % (prop, k, what), flush=True)
    write_evidence(prop, cfg, tier, seed, merged, wall, len(viol), extra_cov)
    if viol:
        for kind, path in viol:
            print("VIOLATION property=%s replay=%s" % (prop, path), flush=True)
        for rc, out, logf, s, checks in results:
            if rc != 0 and os.path.exists(logf):
                tail = open(logf, errors="replace").read()[-3000:]
                print("---- log of failing shard seed=%d ----\n%s" % (s, tail), flush=True)
                break
        return 1
    if inconc:
        for r in inconc:
            log("INCONCLUSIVE:", r)
        return 2
    if merged["evaluations"] == 0:
        log("INCONCLUSIVE: no cases were evaluated")
        return 2
    herr = merged["extra"].get("harness_errors", 0)
    if herr > max(3, merged["evaluations"] // 200):
        log("INCONCLUSIVE: %d case(s) could not be run because of trouble in the rig itself (see HARNESS-ERROR lines in %s)"
            % (herr, os.path.join(WORK, "out", prop)))
        return 2
    if herr > 0:
        # a handful of cases lost to the rig (a capture socket that dropped packets on a busy machine, a port taken
        # between picking and binding) do not make the other cases inconclusive; they are counted in the evidence
        log("note: %d of %d case(s) could not be run because of trouble in the rig itself (counted as harness_errors in the evidence, not as evaluated)"
            % (herr, merged["evaluations"]))
    log("%s %s: held on %d cases (%d distinct non-trivial) in %.1fs" %
        (prop, tier, merged["evaluations"], len(merged["nt"]), wall))
    return 0


def replay(prop, path):
    cfg = PROPS[prop]
    try:
        binaries = needed_binaries(cfg, "quick")
    except Inconclusive as e:
        log("INCONCLUSIVE:", e)
        return 2
    if not os.path.exists(path):
        log("no such replay file", path)
        return 2
    if not path.endswith(".json"):
        # native-fuzz crasher (Go corpus file) or a crash log
        if os.path.basename(path).startswith("fuzz-") and not path.endswith(".log"):
            name = os.path.basename(path).split("-")[1]
            tdir = os.path.join(PROPS_DIR, "testdata", "fuzz", name)
            os.makedirs(tdir, exist_ok=True)
            tmp = os.path.join(tdir, "replay-tmp")
            shutil.copy(path, tmp)
            try:
                r = run(["go", "test", "-run", "^%s$/replay-tmp" % name, "./props"], cwd=HARNESS, timeout=600)
            finally:
                os.remove(tmp)
            print(r.stdout[-3000:])
            if r.returncode != 0:
                print("VIOLATION property=%s replay=%s" % (prop, path))
                return 1
            return 0
        log("crash logs are not replayable; the in-flight case is inside the log")
        return 2
    binary = binaries["race" if cfg.get("race") else "plain"]
    env = dict(GOENV)
    env.update({"VERIF_WORK": WORK, "VERIF_DRV": binaries.get("drv", ""), "VERIF_DRV_RACE": binaries.get("drv_race", ""),
                "VERIF_VFLOW": binaries.get("vflow", ""), "VERIF_VFLOW_RACE": binaries.get("vflow_race", ""),
                "VERIF_REPO": REPO, "VERIF_TIER": "quick", "VERIF_GOLDEN": os.path.join(VERIF, "golden", "ipfix_registry.json")})
    r = run([binary, "-test.run", "^TestReplay$", "-test.timeout", "600s", "-verif.case", os.path.abspath(path),
             "-verif.known", KNOWN], cwd=PROPS_DIR, env=env, timeout=900)
    print(r.stdout[-4000:])
    if "REPLAY-PASS" in r.stdout and r.returncode == 0:
        return 0
    if "REPLAY-FAIL" in r.stdout or "WATCHDOG property=" in r.stdout or CRASH_RE.search(r.stdout):
        print("VIOLATION property=%s replay=%s" % (prop, path))
        return 1
    return 2


def setup():
    try:
        build_harness(False)
        build_harness(True)
        build_driver(False)
        build_driver(True)
        build_vflow(False)
    except Inconclusive as e:
        log("setup failed:", e)
        return 2
    return 0


def main(argv):
    if len(argv) >= 2 and argv[1] == "--setup":
        return setup()
    if len(argv) < 2:
        print(__doc__)
        return 2
    prop = argv[1]
    if len(argv) >= 4 and argv[2] == "--replay":
        return replay(prop, argv[3])
    tier = argv[2] if len(argv) >= 3 else os.environ.get("VERIF_TIER", "quick")
    if tier not in ("quick", "thorough"):
        print("tier must be quick or thorough")
        return 2
    if prop == "all":
        worst = 0
        for p in sorted(PROPS):
            rc = check_property(p, tier)
            log("== %s -> exit %d" % (p, rc))
            worst = max(worst, rc) if rc != 1 and worst != 1 else 1
        return worst
    if prop not in PROPS:
        print("unknown property", prop)
        return 2
    return check_property(prop, tier)


if __name__ == "__main__":
    sys.exit(main(sys.argv))
