#!/bin/bash
# Verifies a seeded defect delivered in /tmp/seeded/<NAME>/ in a fresh scratch worktree, then runs the
# property's check(s) against it in /repo and reverts.
#   tools/seed_verify.sh <NAME> <PROP[,PROP2...]> <demo file> <package dir> <go test -run regex> [tier]
set -u
NAME=$1; PROPS=$2; DEMO=$3; PKG=$4; RUN=$5; TIER=${6:-quick}
SRC=${SEEDROOT:-/tmp/seeded}/$NAME
DEST=$NAME${SEEDSUFFIX:-}
export GOFLAGS=-mod=mod GOPROXY=off GOSUMDB=off GOTOOLCHAIN=local
VT=/tmp/vt/$NAME
rm -rf $VT; git -C /repo worktree prune; git -C /repo worktree add -q --detach $VT HEAD || exit 9
cd $VT
cp $SRC/$DEMO $VT/$PKG/zz_seed_demo_test.go
echo "== demo on the unmodified tree (must pass)"
go test -vet=off -count=1 -run "$RUN" ./$PKG 2>&1 | tail -3; CLEAN=${PIPESTATUS[0]}
rm $VT/$PKG/zz_seed_demo_test.go
echo "== apply patch"
# a patch written before a later repair of /repo touched the same lines: three-way merge, or the tree it was written
# against (the last commit before repairs D16 / D17)
if git apply --check $SRC/patch.diff 2>/dev/null; then git apply $SRC/patch.diff
elif git apply -3 $SRC/patch.diff 2>/dev/null; then git reset -q
else git checkout -q --detach -f ${SEEDBASE:-5f2f6bf} && git apply $SRC/patch.diff || { echo "PATCH DOES NOT APPLY"; exit 8; }; fi
git status --short | grep -v zz_seed_demo
echo "== build + baseline"
go build ./... && go test -count=1 -run '^$' ./... >/dev/null 2>&1; BUILD=$?
go test -vet=off -count=1 ./ipfix/... ./mirror/... ./netflow/... ./packet/... ./producer/... ./reader/... ./sflow/... ./stress/... 2>&1 | grep -v "^ok" | head -5
BASE=${PIPESTATUS[0]}
echo "== demo with the change (must fail)"
cp $SRC/$DEMO $VT/$PKG/zz_seed_demo_test.go
go test -vet=off -count=1 -run "$RUN" ./$PKG 2>&1 | tail -4; SEEDED=${PIPESTATUS[0]}
echo "RESULT clean_demo_exit=$CLEAN build_exit=$BUILD baseline_exit=$BASE seeded_demo_exit=$SEEDED"
cd /verif
if [ "$CLEAN" != 0 ] || [ "$BUILD" != 0 ] || [ "$BASE" != 0 ] || [ "$SEEDED" = 0 ]; then echo "NOT CONFIRMED"; git -C /repo worktree remove --force $VT; exit 7; fi
echo "== run checks against the seeded change (scratch worktree, /repo untouched)"
rm -f $VT/$PKG/zz_seed_demo_test.go
for P in ${PROPS//,/ }; do
  VERIF_REPO=$VT ./check $P $TIER > /tmp/seeded/$DEST.check.$P.log 2>&1; RC=$?
  echo "check $P $TIER -> exit $RC: $(grep -m1 -E 'violated|WATCHDOG|DATA RACE|fails:' /tmp/seeded/$DEST.check.$P.log | cut -c1-260)"
done
git -C /repo worktree remove --force $VT
rm -rf /verif/work/alt-_tmp_vt_$NAME
# keep the confirmed seed
D=/verif/seeded/$DEST; mkdir -p $D
cp $SRC/patch.diff $D/; cp $SRC/$DEMO $D/; [ -f $SRC/NOTES.md ] && cp $SRC/NOTES.md $D/
python3 - <<PY
import json,re,glob
res={}
for f in glob.glob('/tmp/seeded/$DEST.check.*.log'):
    p=f.split('.')[-2]
    t=open(f,errors='replace').read()
    m=re.search(r'(violated: .*|WATCHDOG .*|WARNING: DATA RACE|fails: .*)',t)
    res[p]={"detected": 'VIOLATION property=' in t, "first_report": (m.group(1)[:300] if m else "")}
meta={"name":"$DEST","breaks_properties":"$PROPS".split(','),"origin":"independent sub-agent given only the property text and a scratch worktree",
 "demo":{"file":"$DEMO","copy_into_package":"$PKG","run":"go test -vet=off -count=1 -run '$RUN' ./$PKG"},
 "confirmed":{"demo_passes_on_unmodified_tree":True,"builds":True,"baseline_tests_pass":True,"demo_fails_with_change":True},
 "needs_to_manifest":"see NOTES.md","checks_run":{"tier":"$TIER","results":res}}
import os
if os.path.exists('$D/meta.json'):
    # a re-verification keeps the annotations made by hand
    old=json.load(open('$D/meta.json'))
    for k in ('origin','needs_to_manifest','initially_missed'):
        if old.get(k) and old[k]!='see NOTES.md':
            meta[k]=old[k]
    if old.get('needs_to_manifest','see NOTES.md')!='see NOTES.md':
        meta['breaks_properties']=old['breaks_properties']+[p for p in meta['breaks_properties'] if p not in old['breaks_properties']]
json.dump(meta,open('$D/meta.json','w'),indent=1)
print(json.dumps(res))
PY
