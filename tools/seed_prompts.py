#!/usr/bin/env python3
"""Writes the prompts for a round of independently seeded defects: tools/seed_prompts.py <round> <outroot> <wtprefix>
Each prompt holds only the property text, the scratch worktree and the ideas earlier rounds used (nothing from /verif)."""
import json, os, sys, glob, re
VERIF = os.path.dirname(os.path.dirname(os.path.abspath(__file__)))
rnd, outroot, wtprefix = sys.argv[1], sys.argv[2], sys.argv[3]
props = [json.loads(l) for l in open(os.path.join(VERIF, "properties.jsonl"))]
EMPH = {
 "17": ("This round: a defect tied to TIME. The code must be right whenever it is exercised 'at once' and wrong only because of when something "
        "happens or how long something has lasted: a periodic task (a ticker that dumps, flushes, refreshes, resizes the worker pool, reports "
        "statistics, expires or re-resolves something) that interferes with the normal path when it fires; a timeout, deadline or idle period "
        "after which a connection, socket, buffer or cache entry is treated differently; an age or expiry computed from timestamps (seconds versus "
        "milliseconds, wall clock versus monotonic clock, a zero time, a timestamp in the future or far in the past, an export time or sysUpTime "
        "taken from the datagram); the first seconds after start-up versus later; work that must finish within a grace period. The change should "
        "look like something a maintainer would merge (template expiry, an idle timeout, a periodic flush, a start-up grace period, a deadline "
        "on a write). Keep the time scales short enough that a test can show the violation in a few seconds (periods and timeouts of tens of "
        "milliseconds to two or three seconds, or values taken from the datagram itself). It must not be detectable by a data-race detector "
        "alone, and traffic that is sent and checked at once must look healthy."),
 "16": ("This round: a defect of SCALE or LONG UPTIME, the kind a short test with a handful of exporters never meets. The code must be right "
        "for a small, young collector and wrong only when some quantity has grown or wrapped: a counter, sequence number, index or size that "
        "passes 2^8, 2^15, 2^16, 2^31 or 2^32 (or a smaller limit the change itself introduces: a table of N slots, a ring of N entries, a "
        "batch of N, the N-th use of something reused); a table, cache, pool or list that behaves differently once it holds hundreds or "
        "thousands of entries (many exporters, many templates per exporter, many observation domains, many records or sets in one message, "
        "many sFlow samples, a cache file of megabytes); something that is recycled, rotated, expired, compacted or reset after a number of "
        "uses; accumulated state that drifts. The change should look like something a maintainer would merge to make the collector cope with "
        "large deployments (a bound on memory, a compact index, recycling of objects, an accounting counter). The violation must be reachable "
        "by a test in seconds once one knows what to send, must not be detectable by a data-race detector alone, and a small young collector "
        "must look healthy."),
 "15": ("This round: ORDER, ATOMICITY and LIFECYCLE without a data race. Seed a defect in which every shared access is properly locked or goes "
       "through a channel, yet the outcome depends on an order that is not guaranteed: check-then-act across two critical sections, a lock "
       "released too early or two locks taken one after the other where one atomic step is needed, a lost update, a goroutine started too "
       "early or stopped too late, work handed to a channel after its consumer has gone, a counter or flag read before the step that makes it "
       "true has finished, a start-up or shutdown sequence whose steps were reordered, a worker that is replaced while it still owns something, "
       "a second start / stop / reload of something meant to run once, a timeout or retry that races with the completion it waits for. Where the "
       "property is about a pure library function, use state that lives across calls instead (an object reused after an error, a second call on "
       "the same receiver, initialisation order of package-level state). It must not be reported by the Go race detector; a single-threaded or "
       "lightly loaded run must look healthy. Different mechanism, code site and trigger from everything listed."),
 "14": ("This round: a WRONG ASSUMPTION ABOUT A LIBRARY API. Make a plausible change (refactoring, modernisation, small feature, clean-up) whose "
       "code reads naturally but relies on a subtly wrong belief about the Go standard library or one of the vendored dependencies: what "
       "append does to a slice that has spare capacity, bytes.Buffer / strings.Builder reuse and the lifetime of Bytes(), io.Reader.Read versus "
       "io.ReadFull, binary.Read / binary.Write on structs, json / yaml (un)marshalling details (unexported or zero fields, numbers as float64, "
       "map key encoding, partial results on error), net.IP's 4- and 16-octet forms and To4 / To16 / Equal / String, net.Conn deadlines and "
       "partial writes, strings.Split / Fields / Trim semantics, strconv bit sizes, integer conversion and shifts, time zones and monotonic "
       "clocks, map iteration order, sort stability, defer and closures in loops, select with default, sync.Pool / sync.Once / atomic semantics, "
       "os.Stat versus Lstat, file open flags, flag package parsing rules. The code must work in the common case and fail in the case where the "
       "belief is wrong. Different mechanism, code site and trigger from everything listed; not detectable by a data-race detector alone; "
       "ordinary traffic with default settings must look healthy."),
 "13": ("This round: TWINS. This code base is full of near-duplicates: the IPFIX and NetFlow v9 decoders, template caches and JSON encoders; "
       "the four protocol listeners and workers in ./vflow; IPv4 versus IPv6 branches; plain versus options templates (scope fields versus "
       "ordinary fields); flow samples versus counter samples and their expanded forms; the IPFIX and sFlow mirror paths; tcp versus udp in the "
       "producer; the three configuration sources. Seed a defect of the kind that lives between twins: a change or fix applied to one twin and "
       "carried over to the other with a slip (the wrong variable, constant, field, index base or comparison survives the copy), or two twins "
       "merged into one shared helper that is right for one of them and subtly wrong for the other, or a loop / switch that handles all "
       "siblings but one. The twin that is exercised by ordinary traffic and by the existing tests must stay correct. Different mechanism, "
       "code site and trigger from everything listed; not detectable by a data-race detector alone."),
 "12": ("This round: a CONTRACT CHANGE between two pieces of code — a helper, method or type keeps its signature but its convention changes "
       "slightly (nil versus empty result, error versus zero value, who owns or may keep a buffer or slice after the call, inclusive versus "
       "exclusive bound, units, whether a count includes a header, whether a map/slice result is shared or copied, whether the call may block, "
       "what state an object is left in after an error), all of its callers but one are fine with the new convention (or are updated), and the "
       "remaining caller — or a caller in another package, or an implementation of the same interface for another protocol / address family — "
       "silently relies on the old one. Each site must look correct when read alone. Different mechanism, code site and trigger from everything "
       "listed; not detectable by a data-race detector alone; ordinary traffic with default settings must look healthy."),
 "11": ("This round: a HARDENING, VALIDATION or CLEAN-UP commit — a new sanity check on input or configuration, a stricter parser, a defensive limit, "
       "an early return for a case that 'cannot happen', unified or simplified error handling, a tidied-up loop or condition, dead-code removal, "
       "replacing hand-written code by a library call (or the reverse), a changed default of a helper — that looks like an improvement and is "
       "wrong for an uncommon but perfectly valid case: valid input is now rejected, skipped, truncated or altered, an error that used to be "
       "tolerated now aborts more than it should (or the reverse: something that must be refused now gets through), a step that used to run "
       "in every path is now skipped in one. The change should be something a reviewer would approve at a glance. Different mechanism, code "
       "site and trigger from everything listed; not detectable by a data-race detector alone; ordinary traffic with default settings must look healthy."),
 "10": ("This round: a PERFORMANCE OPTIMISATION or a REFACTORING for speed / fewer allocations — a fast path for the common case, caching or "
       "memoisation of something computed per message (parsed templates, record lengths, keys, addresses, formatted strings), reuse or pooling of "
       "buffers / slices / maps / decoder objects, batching or coalescing of writes, avoiding a copy, a precomputed table, narrowing or splitting "
       "a lock, lazy initialisation, replacing a generic routine by a specialised one — that is correct for the common case and wrong for an "
       "uncommon but perfectly valid case (state left over from the previous use of a reused object, a cache key that leaves out something that "
       "matters, a fast path whose precondition is not quite the one checked, a batch that is flushed at the wrong moment, an aliasing slice). "
       "The optimisation should be real (a benchmark would show it) and the common case must stay correct. Different mechanism, code site and "
       "trigger from everything listed; not detectable by a data-race detector alone; ordinary traffic with default settings must look healthy."),
 "9": ("This round: implement a small, plausible FEATURE or EXTENSION — support for something the code skips or does not do today (another sFlow "
       "record or sample type, IPv6 where only IPv4 is handled, a new setting or flag, another element data type, template withdrawal or expiry, "
       "a limit that protects the collector, a statistics counter, friendlier handling of some error, a retry or a timeout) — whose implementation "
       "is subtly incomplete or wrong, so that the property breaks in an interaction between the new code and existing behaviour. The feature "
       "itself should work in the obvious cases; the violation should need a less obvious case. Different mechanism, code site and trigger from "
       "everything listed; not detectable by a data-race detector alone; ordinary traffic with default settings must look healthy."),
 "8": ("This round has no prescribed dimension: read the code that implements the property's mechanism (and its callers in ./vflow) closely and "
       "seed the subtlest, most realistic defect you can find that none of the listed ideas covers — different mechanism, different code site, "
       "different trigger. Think of what a careful reviewer would still wave through: a changed default of a helper, an early return that skips a "
       "later step, state that survives from one message / datagram / connection / run to the next, an assumption about what a library call returns, "
       "arithmetic on lengths and counts, an error path that is taken once in a while. It must not be detectable by a data-race detector alone, "
       "and ordinary traffic with default settings must look healthy."),
 "7": ("This round: make the violation live in a NARROW region of the input or state space, the kind that randomly generated tests with some ten "
       "thousand cases tend to miss: a specific boundary or magic value of one particular field (a power of two, 255/256, 65535/65536, 2^31, "
       "2^32-1, a particular element id, type, protocol number, address or port), preferably combined with a second independent condition "
       "(a particular other field value, a position in the message, a record count, an earlier message, a setting). Use a code site none of the "
       "listed earlier changes touched. It must still be a change a maintainer could plausibly merge, and must not be detectable by a data-race "
       "detector alone."),
 "6": ("This round: pick a code site that NONE of the listed earlier changes touched (a different function, preferably a different file) and a trigger "
       "from a dimension the earlier ones did not use. Dimensions worth considering: valid but unusual setting values and combinations of settings "
       "(sizes, worker counts, addresses to bind, enable switches, topics, cpu cap, verbose logging, dynamic workers), properties of the environment "
       "(where files live, what already exists at a path, time since start, wall-clock values, number of CPUs), long-running behaviour (counters, "
       "sequence numbers or sizes crossing a power of two, growth of a cache or buffer over many messages), rarely used but valid protocol features, "
       "and the order in which independent activities complete. The change should look like something a maintainer would merge (optimisation, "
       "clean-up, small feature, hardening) and must not be detectable by a data-race detector alone."),
 "5": ("This round: prefer a change that could arrive as part of a plausible feature or maintenance commit (a performance optimisation, an "
       "error-handling or logging clean-up, a new option or metric, a dependency-style API adaptation) and whose violation shows only through the "
       "interplay of two components (e.g. worker + template cache, receive loop + shutdown, option parsing + the place where the option is used, "
       "decoder value types + JSON encoder, cache dump + cache load), or only on a rarely exercised but perfectly valid part of the input domain "
       "(rare element types or lengths, options templates with scope fields, IPv6 or IPv4-mapped exporters, sFlow expanded samples, several sets or "
       "records per message, maximum sizes, unusual but valid setting values)."),
}
for p in props:
    pid = p["id"]
    used = []
    for d in sorted(glob.glob(os.path.join(VERIF, "seeded", pid + "*", "meta.json"))):
        m = json.load(open(d))
        files = sorted(set(re.findall(r"^diff --git a/(\S+)", open(os.path.join(os.path.dirname(d), "patch.diff")).read(), re.M)))
        used.append("  - [%s] %s" % (", ".join(files), m.get("needs_to_manifest", "")))
    wt = "%s%s" % (wtprefix, pid)
    out = os.path.join(outroot, pid)
    os.makedirs(out, exist_ok=True)
    txt = f"""You are helping to evaluate a verification setup by producing a *seeded defect* for a Go code base (vFlow: an IPFIX / NetFlow v5 / v9 / sFlow UDP collector; module github.com/EdgeCast/vflow).

Your scratch copy of the repository is the git worktree at {wt} . Work ONLY inside that directory and inside {out} (your output directory). Do not read or write /verif or /repo. There is no network; run Go with:
  export GOFLAGS=-mod=mod GOPROXY=off GOSUMDB=off GOTOOLCHAIN=local

The semantic property your change must break:

Property {pid} — {p['title']}

Statement: {p['statement']}

Quantified over: {p['quantifier']['text']}


Task: make ONE realistic change to the non-test source code in {wt} (a plausible bug a maintainer could introduce: a refactoring slip, an off-by-one, a dropped lock or check, a swapped field, a wrong condition, two cooperating sites that each look fine alone) such that
  (a) everything still compiles:  cd {wt} && go build ./... && go test -count=1 -run '^$' ./...
  (b) the existing baseline tests still pass:  cd {wt} && go test -vet=off -count=1 ./ipfix/... ./mirror/... ./netflow/... ./packet/... ./producer/... ./reader/... ./sflow/... ./stress/...
      (the ./vflow package only has to compile; its TestMirrorIPFIX is not part of the baseline)
  (c) the property above is violated — but NOT in a way ordinary use would expose at once. The violation must need something specific to manifest: a particular unusual input or boundary value, a multi-step sequence of operations/history, a particular interleaving or timing, a crash/fault at a particular point, or a particular combination of configuration sources. Prefer subtle over blatant; do not simply delete a feature or make every input fail.
Do not edit existing *_test.go files and do not touch vflow/verif_driver_test.go.

Deliverables, all inside {out} :
  1. patch.diff  — produced with:  cd {wt} && git diff > {out}/patch.diff   (only your source change, no new test files in it)
  2. a demonstration: a Go test file (or small program) plus the exact commands to run it, which FAILS with your change applied and PASSES on the unmodified tree (verify both yourself with `git apply -R` / `git apply`, see below). Put the demo file in {out} (e.g. demo_test.go, with a note into which package directory of the worktree it must be copied to run) — it may use unexported identifiers of that package. The demonstration must be deterministic enough to fail at least 9 times out of 10 with the change and never on the unmodified tree.
  3. NOTES.md — which mechanism you broke, what exactly is needed for the violation to manifest (input / sequence / timing), and the command lines you ran with their outcomes (build, baseline tests, demo with and without the change).
Leave the worktree with your change applied (uncommitted) when you finish. Report back a short summary (what you changed, how it manifests).

Earlier exercises already used the following ideas for this property (files touched in brackets); choose a DIFFERENT mechanism, a different code site and a different trigger (not a variation of these). {EMPH[rnd]}
{chr(10).join(used)}

Important: do NOT use `git stash` (the stash is shared between worktrees of several people working in parallel). To compare with the unmodified tree use `git diff > /tmp/yourfile.diff; git apply -R /tmp/yourfile.diff; ...; git apply /tmp/yourfile.diff`.

Hints (optional): the collector's main package is ./vflow (package main). A demonstration for behaviour that lives there can be a *_test.go file placed in ./vflow (note that vflow/ipfix_test.go has an init() that sets `opts = &Options{{}}`; your test may set `opts`/`logger` itself), or a small script/program that builds the binary (`go build -o /tmp/.../vflow ./vflow`) and runs it with `-config <file>` (keys are documented in docs/config.md; `mq-name: rawSocket` with an `mq.conf` next to the config file containing `url: 127.0.0.1:<port>` and `protocol: tcp` publishes newline-terminated JSON to a TCP listener you open; `stats-format: restful` plus `stats-http-port` gives a JSON stats API at /flow; set `ipfix-rpc-enabled: false`, `dynamic-workers: false`, and per-run `pid-file`, `ipfix-tpl-cache-file`, `netflow9-tpl-cache-file`). Raw sockets (CAP_NET_RAW) are available in this sandbox. Keep everything you create under your worktree, your output directory, or a temp dir you remove afterwards.
"""
    open(os.path.join(outroot, pid + ".prompt.txt"), "w").write(txt)
print("prompts written to", outroot)
