"""Per-property configuration of the checks (test name, case budgets, shards, needs)."""

PROPS = {
    "C19": dict(
        test="TestC19", level="exploration",
        quick=dict(checks=160000, shards=8, budget_s=240),
        thorough=dict(checks=6000000, shards=16, budget_s=1800, fuzz=[("FuzzC19", 90)]),
        technique="model-based property testing (rapid): reader vs. (bytes,pos) reference model, invariants after every operation; native fuzz in thorough",
        level_text="Random operation sequences over random buffers are compared step by step with a trivial reference model; any out-of-window read, wrong value, position drift or moving peek is caught on the step where it happens. Exploration, not proof: the operation alphabet is small and the state is (pos), so hundreds of thousands of sequences cover it densely.",
        level_note="Trusts the Go runtime's bounds checks to turn an out-of-range access into a panic, and the reference model (a slice and an integer). Negative length arguments are outside the domain.",
        assumptions=["length arguments are non-negative (every caller passes a widened unsigned wire length)"],
    ),
}
