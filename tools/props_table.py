"""Per-property configuration of the checks (test name, case budgets, shards, needs)."""

PROPS = {
    "C19": dict(
        test="TestC19", level="exploration",
        quick=dict(checks=160000, shards=8, budget_s=240),
        thorough=dict(checks=6000000, shards=16, budget_s=1800, fuzz=[("FuzzC19", 90)]),
        technique="model-based property testing (rapid): reader vs. (bytes,pos) reference model, invariants after every operation; native fuzz in thorough",
        level_text="Random operation sequences over random buffers are compared step by step with a trivial reference model; any out-of-window read, wrong value, position drift or moving peek is caught on the step where it happens. Exploration, not proof: the operation alphabet is small and the state is (pos), so hundreds of thousands of sequences cover it densely.",
        level_note="Trusts the Go runtime's bounds checks to turn an out-of-range access into a panic, and the reference model (a slice and an integer). Negative length arguments are outside the domain.",
        assumptions=["length arguments are non-negative (every caller passes a widened unsigned wire length)"],
    ),
    "C03": dict(
        test="TestC03", level="exploration",
        quick=dict(checks=48000, shards=8, budget_s=300),
        thorough=dict(checks=2400000, shards=16, budget_s=3000),
        technique="property-based round trip (rapid): structured template/record generator -> wire bytes -> decoder, compared with an independent RFC 7011 reference interpretation",
        level_text="Generated templates and records are serialised by the harness's own RFC 7011 builder and decoded by vflow; every header field, record count, order, element id, enterprise number and value must equal the reference interpretation of the same octets. Label histogram in the evidence shows coverage of variable-length prefixes, scope fields, enterprise elements, padding and short records.",
        level_note="Trusts the harness's builder and reference interpretation (wire/). Domain restrictions: shortest record >= 1 octet, variable-length marker only on string/octetArray, fixed-size types never longer than their natural size, padding shorter than the shortest record.",
    ),
    "C06": dict(
        test="TestC06", level="exploration",
        quick=dict(checks=48000, shards=8, budget_s=300),
        thorough=dict(checks=2400000, shards=16, budget_s=3000),
        technique="property-based round trip (rapid): structured template/record generator -> wire bytes -> decoder, compared with an independent RFC 3954 reference interpretation",
        level_text="Same construction as C03 over NetFlow v9 framing: plain and options templates (scope/option lengths in octets), every field type and length, padding; decoded header and records must equal the reference interpretation.",
        level_note="Trusts the harness's builder and reference interpretation (wire/). Domain restrictions: shortest record >= 1 octet, padding shorter than the record and at most 3 octets, fixed-size types never longer than their natural size.",
    ),
}
