#!/usr/bin/env python3
"""Regenerates /verif/MANIFEST.json from tools/props_table.py (claimed checks) and properties.jsonl."""
import json, os, sys
VERIF = os.path.dirname(os.path.dirname(os.path.abspath(__file__)))
sys.path.insert(0, os.path.join(VERIF, "tools"))
from props_table import PROPS

BASELINE_OFF = ("cd /repo && go test -json -vet=off -count=1 -timeout 25m ./...")

all_ids = [json.loads(l)["id"] for l in open(os.path.join(VERIF, "properties.jsonl"))]
checks, na = [], []
for pid in all_ids:
    cfg = PROPS.get(pid)
    if not cfg or cfg.get("unclaimed"):
        na.append({"property_id": pid, "reason": (cfg or {}).get("unclaimed") or
                   "check not built yet (work in progress; the design in DESIGN.md claims it)"})
        continue
    checks.append({
        "property_id": pid,
        "quick_cmd": "./check %s quick" % pid,
        "thorough_cmd": "./check %s thorough" % pid,
        "evidence_file": "/verif/evidence/%s.json" % pid,
        "replay_cmd_template": "./check %s --replay {path}" % pid,
        "engine": "rapid-harness",
        "level_claimed": {
            "category": cfg.get("level", "exploration"),
            "text": cfg["level_text"],
            "design_ref": "DESIGN.md section 4, " + pid,
        },
        "level_note": cfg["level_note"],
        "technique": cfg["technique"],
    })
man = {
    "version": 1,
    "setup_cmd": "./check --setup",
    "hooks": {
        "guard": "verif",
        "enable": "go test -c -tags verif ./vflow  (test-only driver file vflow/verif_driver_test.go, package main; built by ./check)",
        "baseline_off_cmd": BASELINE_OFF,
        "source_commits": json.load(open(os.path.join(VERIF, "tools", "hook_commits.json"))) if os.path.exists(os.path.join(VERIF, "tools", "hook_commits.json")) else [],
        "add_only": True,
    },
    "engines": [
        {"name": "rapid-harness", "path": "harness/", "serves_properties": [c["property_id"] for c in checks],
         "kind_free_text": "Go module using pgregory.net/rapid v1.3.0 (property-based, model-based and metamorphic checks with shrinking) plus native go test -fuzz targets in the thorough tier; compiled against /repo's working tree through a replace directive; orchestrated by tools/check.py"},
    ],
    "checks": checks,
    "not_applicable": na,
    "notes": "Exit 2 from a check means inconclusive (build/time-budget trouble), never a violation. known_findings.json lists fixed defects and recorded findings.",
}
json.dump(man, open(os.path.join(VERIF, "MANIFEST.json"), "w"), indent=1)
print("MANIFEST.json: %d checks, %d not_applicable" % (len(checks), len(na)))
