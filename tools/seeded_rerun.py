#!/usr/bin/env python3
"""Applies every confirmed seeded defect under /verif/seeded/<name>/patch.diff to /repo, runs the quick tier
of the properties it breaks, reverts, and records the outcome in meta.json and seeded/RESULTS.md."""
SEED_BASE = "5f2f6bf"
import json, os, subprocess, sys, glob, re
VERIF = os.path.dirname(os.path.dirname(os.path.abspath(__file__)))
tier = sys.argv[1] if len(sys.argv) > 1 else "quick"
only = sys.argv[2:]  # optional names
# the checks run from a snapshot of /verif taken now, so that the harness can be edited while the re-run is under way
SNAP = "/tmp/verif-snap-%d" % os.getpid()
subprocess.run(["rsync", "-a", "--delete", "--exclude", "/work", "--exclude", "/seeded", "--exclude", "/.git", "--exclude", "/replay",
                "--exclude", "/evidence", VERIF + "/", SNAP + "/"], check=True)
import atexit, shutil
atexit.register(lambda: shutil.rmtree(SNAP, ignore_errors=True))
rows = []
for d in sorted(glob.glob(os.path.join(VERIF, "seeded", "*", ""))):
    name = os.path.basename(d.rstrip("/"))
    if only and name not in only:
        continue
    meta = json.load(open(os.path.join(d, "meta.json")))
    # the seeded change lives in a scratch worktree; /repo itself is never touched
    wt = "/tmp/vt/rerun-" + name
    subprocess.run(["git", "-C", "/repo", "worktree", "remove", "--force", wt], capture_output=True)
    subprocess.run(["git", "-C", "/repo", "worktree", "prune"])
    subprocess.run(["git", "-C", "/repo", "worktree", "add", "-q", "--detach", wt, "HEAD"], check=True)
    # a patch written before a later repair of /repo touched the same lines is applied by a three-way merge, or,
    # failing that, to the tree it was written against (SEED_BASE: the last commit before repairs D16 / D17)
    patch = os.path.join(d, "patch.diff")
    base = json.load(open(os.path.join(d, "meta.json"))).get("apply_to")
    if base:
        # a seed whose mechanism a later repair of /repo removed is applied to the tree before that repair
        subprocess.run(["git", "-C", wt, "checkout", "-q", "--detach", "-f", base], check=True)
        subprocess.run(["git", "-C", wt, "apply", patch], check=True)
    elif subprocess.run(["git", "-C", wt, "apply", "--check", patch], capture_output=True).returncode == 0:
        subprocess.run(["git", "-C", wt, "apply", patch], check=True)
    elif subprocess.run(["git", "-C", wt, "apply", "-3", patch], capture_output=True).returncode == 0:
        subprocess.run(["git", "-C", wt, "reset", "-q"], check=True)
    else:
        subprocess.run(["git", "-C", wt, "checkout", "-q", "--detach", "-f", SEED_BASE], check=True)
        subprocess.run(["git", "-C", wt, "apply", patch], check=True)
    res = {}
    env = dict(os.environ, VERIF_REPO=wt)
    try:
        for p in meta["breaks_properties"]:
            r = subprocess.run([os.path.join(SNAP, "check"), p, tier], capture_output=True, text=True, cwd=SNAP, env=env)
            m = re.search(r"(violated: .*|WATCHDOG .*|WARNING: DATA RACE|fails: .*)", r.stdout)
            res[p] = {"exit": r.returncode, "detected": r.returncode == 1 and "VIOLATION property=%s" % p in r.stdout,
                      "first_report": m.group(1)[:260] if m else ""}
            print(name, p, "exit", r.returncode, (m.group(1)[:150] if m else ""), flush=True)
    finally:
        subprocess.run(["git", "-C", "/repo", "worktree", "remove", "--force", wt])
        tag = "alt-" + "".join(ch if ch.isalnum() else "_" for ch in os.path.realpath(wt))[-40:]
        shutil.rmtree(os.path.join(SNAP, "work", tag), ignore_errors=True)
    meta.setdefault("checks_run", {})["tier"] = tier
    meta["checks_run"]["results"] = res
    json.dump(meta, open(os.path.join(d, "meta.json"), "w"), indent=1)
    rows.append((name, meta, res))
with open(os.path.join(VERIF, "seeded", "RESULTS.md"), "w") as f:
    f.write("| seed | what it needs to manifest | check | detected | first report |\n|---|---|---|---|---|\n")
    for d in sorted(glob.glob(os.path.join(VERIF, "seeded", "*", "meta.json"))):
        meta = json.load(open(d))
        for p, r in meta.get("checks_run", {}).get("results", {}).items():
            f.write("| %s | %s | %s | %s (%s tier) | %s |\n" % (meta["name"], meta.get("needs_to_manifest", "").replace("|", "/"), p,
                                                             "yes" if r["detected"] else "NO", meta["checks_run"].get("tier", "quick"),
                                                             r["first_report"].replace("|", "/")[:160]))
print(open(os.path.join(VERIF, "seeded", "RESULTS.md")).read()[-1500:])
