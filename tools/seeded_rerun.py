#!/usr/bin/env python3
"""Applies every confirmed seeded defect under /verif/seeded/<name>/patch.diff to /repo, runs the quick tier
of the properties it breaks, reverts, and records the outcome in meta.json and seeded/RESULTS.md."""
import json, os, subprocess, sys, glob, re
VERIF = os.path.dirname(os.path.dirname(os.path.abspath(__file__)))
tier = sys.argv[1] if len(sys.argv) > 1 else "quick"
only = sys.argv[2:]  # optional names
rows = []
assert subprocess.run(["git", "-C", "/repo", "status", "--short"], capture_output=True, text=True).stdout.strip() == "", "/repo not clean"
for d in sorted(glob.glob(os.path.join(VERIF, "seeded", "*", ""))):
    name = os.path.basename(d.rstrip("/"))
    if only and name not in only:
        continue
    meta = json.load(open(os.path.join(d, "meta.json")))
    subprocess.run(["git", "-C", "/repo", "apply", os.path.join(d, "patch.diff")], check=True)
    res = {}
    try:
        for p in meta["breaks_properties"]:
            r = subprocess.run([os.path.join(VERIF, "check"), p, tier], capture_output=True, text=True, cwd=VERIF)
            m = re.search(r"(violated: .*|WATCHDOG .*|WARNING: DATA RACE|fails: .*)", r.stdout)
            res[p] = {"exit": r.returncode, "detected": r.returncode == 1 and "VIOLATION property=%s" % p in r.stdout,
                      "first_report": m.group(1)[:260] if m else ""}
            print(name, p, "exit", r.returncode, (m.group(1)[:150] if m else ""), flush=True)
    finally:
        subprocess.run(["git", "-C", "/repo", "checkout", "--", "."], check=True)
    meta.setdefault("checks_run", {})["tier"] = tier
    meta["checks_run"]["results"] = res
    json.dump(meta, open(os.path.join(d, "meta.json"), "w"), indent=1)
    rows.append((name, meta, res))
with open(os.path.join(VERIF, "seeded", "RESULTS.md"), "w") as f:
    f.write("| seed | what it needs to manifest | check | detected (%s tier) | first report |\n|---|---|---|---|---|\n" % tier)
    for name, meta, res in rows:
        for p, r in res.items():
            f.write("| %s | %s | %s | %s | %s |\n" % (name, meta.get("needs_to_manifest", "").replace("|", "/"), p,
                                                   "yes" if r["detected"] else "NO", r["first_report"].replace("|", "/")[:160]))
# evidence files describe runs on the unchanged tree only: drop what the runs against seeded trees wrote
subprocess.run(["git", "-C", VERIF, "checkout", "--", "evidence"])
print(open(os.path.join(VERIF, "seeded", "RESULTS.md")).read())
